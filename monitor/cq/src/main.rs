//! cqmon — runtime monitor for the calendar queue (`des-cqueue`).
//!
//! Sub-commands (all take the common worker arguments of `vcommon::Args`):
//!   c01     random + enumerated histories, multiset oracle, structure walk        (property C01)
//!   c03     tie-heavy histories, exact order oracle, metamorphic replays          (property C03, queue level)
//!   c15     payload zoo x page sizes, allocator shadow map, drop registry         (property C15)
//!   replay  <file>   re-executes the operation list of a replay file
//!
//! extra arguments: len=<max ops per history>  enum=<sequence length of the enumeration>

mod payload;
mod runner;

use payload::*;
use runner::{Cfg, Failure, Op, Oracles, Runner, Stats};
use serde_json::{json, Value};
use vcommon::{Args, Hasher64, Report, Rng};

const NS: &[usize] = &[1, 2, 3, 7, 10, 32, 1024, 1028];
const TS: &[u64] = &[1, 2, 7, 1_000, 2_500_000, 1_000_000_000, 3_000_000_000, 1 << 61, (1 << 62) + 12_345];

const PAYLOADS: &[&str] = &[
    Ident::NAME,
    Tiny::NAME,
    Three::NAME,
    Word::NAME,
    Wide::NAME,
    Pair::NAME,
    Aligned16::NAME,
    Big::NAME,
    Owning::NAME,
    Zst::NAME,
];

macro_rules! with_payload {
    ($idx:expr, $f:ident ( $($arg:expr),* )) => {
        match $idx {
            0 => $f::<Ident>($($arg),*),
            1 => $f::<Tiny>($($arg),*),
            2 => $f::<Three>($($arg),*),
            3 => $f::<Word>($($arg),*),
            4 => $f::<Wide>($($arg),*),
            5 => $f::<Pair>($($arg),*),
            6 => $f::<Aligned16>($($arg),*),
            7 => $f::<Big>($($arg),*),
            8 => $f::<Owning>($($arg),*),
            9 => $f::<Zst>($($arg),*),
            _ => unreachable!(),
        }
    };
}

// -------------------------------------------------------------------------------------------------
// adaptive history generation
// -------------------------------------------------------------------------------------------------

#[derive(Debug, Clone, Copy)]
struct Profile {
    len: usize,
    /// weight of tie choices (timestamps already pending / the current instant)
    tie_heavy: bool,
    cancels: bool,
    past_adds: bool,
    /// number of far-future outliers allowed in one history
    far: u32,
}

fn choose_time<P: Payload>(rng: &mut Rng, r: &Runner<P>, prof: &Profile, far_left: &mut u32) -> u128 {
    let c = r.current();
    let t = u128::from(r.cfg.t_ns);
    let n = r.cfg.n as u128;
    let year = t * n;
    let w: [u64; 12] = if prof.tie_heavy {
        [30, 4, 6, 6, 6, 6, 25, 8, 2, 4, 1, 2]
    } else {
        [10, 6, 8, 10, 8, 6, 10, 20, 4, 8, 1, 9]
    };
    loop {
        let choice = rng.weighted(&w);
        let time = match choice {
            // the current instant (zero bucket)
            0 => c,
            1 => c + 1,
            // around one bucket width
            2 => c + (t + rng.below(3) as u128).saturating_sub(1),
            // k buckets ahead
            3 => c + t * (1 + rng.below(2 * n as u64 + 2) as u128),
            // exactly / around one year ahead
            4 => c + (year + rng.below(3) as u128).saturating_sub(1),
            // several years ahead
            5 => c + year * (2 + rng.below(4) as u128) + rng.below(2) as u128 * (t / 2),
            // a timestamp that is already pending (tie)
            6 => match r.pending_time_sample(rng.next_u64()) {
                Some(p) => p,
                None => continue,
            },
            // uniformly within the next three years
            7 => c + rng.below((3 * year).min(u128::from(u64::MAX - 1)) as u64 + 1) as u128,
            // next bucket boundary +-1
            8 => {
                let b = (c / t + 1) * t;
                (b + rng.below(3) as u128).saturating_sub(1).max(c)
            }
            // next year boundary +-1
            9 => {
                let b = (c / year + 1) * year;
                (b + rng.below(3) as u128).saturating_sub(1).max(c)
            }
            // far future outlier (bounded: the bucket scan is linear in skipped buckets)
            10 => {
                if *far_left == 0 {
                    continue;
                }
                *far_left -= 1;
                c + t * (1000 + rng.below(200_000) as u128)
            }
            // same bucket index one year later than a pending event (shares a bucket, different year)
            _ => match r.pending_time_sample(rng.next_u64()) {
                Some(p) => p + year * (1 + rng.below(2) as u128),
                None => continue,
            },
        };
        debug_assert!(time >= c);
        return time;
    }
}

/// Generates and executes one adaptive history. Returns the statistics or the failure,
/// in both cases together with the concrete operation list.
fn gen_history<P: Payload>(
    rng: &mut Rng,
    cfg: Cfg,
    oracles: Oracles,
    prof: Profile,
    collect_states: bool,
) -> (Result<Stats, Failure>, Vec<Op>, Vec<u64>) {
    let mut r = Runner::<P>::new(cfg, oracles);
    r.collect_states = collect_states;
    let mut far_left = prof.far;
    // phases: fill / interleave / drain / refill, random lengths
    let mut remaining = prof.len;
    let mut result = Ok(());
    'outer: while remaining > 0 {
        let phase = rng.below(4);
        let phase_len = (1 + rng.usize_below(prof.len / 3 + 2)).min(remaining);
        remaining -= phase_len;
        // weights: add, fetch, cancel, past-add, peek
        let w: [u64; 5] = match phase {
            0 => [75, 10, 12, 3, 5],
            1 => [45, 40, 12, 3, 5],
            2 => [15, 70, 12, 3, 5],
            _ => [55, 25, 17, 3, 5],
        };
        for _ in 0..phase_len {
            let mut w = w;
            if r.pending() == 0 {
                w[1] = 0;
            }
            if !prof.cancels || r.tags() == 0 {
                w[2] = 0;
            }
            if !prof.past_adds || r.current() == 0 {
                w[3] = 0;
            }
            let res = match rng.weighted(&w) {
                0 => {
                    let time = choose_time(rng, &r, &prof, &mut far_left);
                    // bursts of equal timestamps
                    let burst = if prof.tie_heavy && rng.chance(1, 4) { 1 + rng.below(5) } else { 1 };
                    let mut res = Ok(());
                    for _ in 0..burst {
                        res = r.add(time);
                        if res.is_err() {
                            break;
                        }
                    }
                    res
                }
                1 => r.fetch(),
                2 => {
                    // any handle ever returned: pending, fetched, cancelled; with a preference for
                    // events that tie with the current time
                    let tags = r.tags();
                    let mut tag = rng.usize_below(tags);
                    if rng.chance(1, 3) {
                        let c = r.current();
                        let start = rng.usize_below(tags);
                        for k in 0..tags.min(64) {
                            let cand = (start + k) % tags;
                            if r.is_pending(cand) && r.time_of(cand) == c {
                                tag = cand;
                                break;
                            }
                        }
                    }
                    r.cancel(tag)
                }
                3 => {
                    let c = r.current();
                    let back = 1 + rng.below(c.min(u128::from(u64::MAX / 2)) as u64) as u128;
                    let time = if rng.chance(1, 2) { c - 1 } else { c - back.min(c) };
                    r.add_past(time)
                }
                _ => r.peek(),
            };
            if let Err(f) = res {
                result = Err(f);
                break 'outer;
            }
        }
    }
    if result.is_ok() && rng.chance(1, 6) {
        let _ = r.apply(Op::DropUnwinding);
    }
    let ops = r.ops.clone();
    let states = std::mem::take(&mut r.state_hashes);
    match result {
        Ok(()) => {
            let mut states = states;
            let res = {
                // finish consumes the runner; collect the last state hashes first
                let r2 = r;
                r2.finish()
            };
            states.sort_unstable();
            states.dedup();
            (res, ops, states)
        }
        Err(f) => {
            // the C15 driver decides its own obligations even if a sibling oracle failed first
            if oracles.shadow && f.property != "C15" {
                if let Some(own) = r.finish_after_failure() {
                    return (Err(own), ops, states);
                }
            }
            (Err(f), ops, states)
        }
    }
}

/// Executes an explicit operation list (replay, shrinking, metamorphic variants). Operations
/// that are not applicable in the current state are skipped. Returns the fetch order (tags).
fn run_ops<P: Payload>(cfg: Cfg, oracles: Oracles, ops: &[Op]) -> Result<(Stats, Vec<usize>), Failure> {
    let mut r = Runner::<P>::new(cfg, oracles);
    let mut order = Vec::new();
    let mut early: Option<Failure> = None;
    for (i, op) in ops.iter().enumerate() {
        let res = match *op {
            Op::Add { time_ns } if time_ns >= r.current() => r.add(time_ns),
            Op::AddPast { time_ns } if time_ns < r.current() => r.add_past(time_ns),
            Op::Cancel { tag } if tag < r.tags() => r.cancel(tag),
            Op::Peek => r.peek(),
            Op::DropUnwinding => r.apply(Op::DropUnwinding),
            Op::Fetch if r.pending() > 0 => {
                let before: Vec<bool> = (0..r.tags()).map(|t| r.is_pending(t)).collect();
                let res = r.fetch();
                if res.is_ok() {
                    if let Some(t) = (0..r.tags()).find(|t| before[*t] && !r.is_pending(*t)) {
                        order.push(t);
                    }
                }
                res
            }
            _ => Ok(()),
        };
        if let Err(mut f) = res {
            // `at_op` of a failure refers to the position in `ops` (skipped operations included)
            f.at_op = i;
            early = Some(f);
            break;
        }
    }
    if let Some(f) = early {
        if oracles.shadow && f.property != "C15" {
            let at = f.at_op;
            if let Some(mut own) = r.finish_after_failure() {
                own.at_op = at;
                return Err(own);
            }
        }
        return Err(f);
    }
    let n = ops.len();
    let stats = r.finish().map_err(|mut f| {
        f.at_op = n.saturating_sub(1);
        f
    })?;
    Ok((stats, order))
}

/// Removes operation `i`; cancels of a removed add disappear and later tags are renumbered.
fn remove_op(ops: &[Op], i: usize) -> Vec<Op> {
    let mut out = Vec::with_capacity(ops.len());
    let removed_tag = match ops[i] {
        Op::Add { .. } => Some(ops[..i].iter().filter(|o| matches!(o, Op::Add { .. })).count()),
        _ => None,
    };
    for (j, op) in ops.iter().enumerate() {
        if j == i {
            continue;
        }
        match (*op, removed_tag) {
            (Op::Cancel { tag }, Some(rt)) if tag == rt => {}
            (Op::Cancel { tag }, Some(rt)) if tag > rt => out.push(Op::Cancel { tag: tag - 1 }),
            (o, _) => out.push(o),
        }
    }
    out
}

fn shrink<P: Payload>(cfg: Cfg, oracles: Oracles, ops: &[Op], failure: &Failure) -> (Vec<Op>, Failure) {
    let mut best = ops[..=failure.at_op.min(ops.len() - 1)].to_vec();
    let mut best_failure;
    // confirm that the truncated explicit list reproduces
    match run_ops::<P>(cfg, oracles, &best) {
        Err(f) if f.kind == failure.kind => best_failure = f,
        _ => return (ops.to_vec(), failure.clone()),
    }
    let mut budget = 3000usize;
    let mut progress = true;
    while progress && budget > 0 {
        progress = false;
        let mut i = best.len();
        while i > 0 && budget > 0 {
            i -= 1;
            if i >= best.len() {
                continue;
            }
            let cand = remove_op(&best, i);
            budget -= 1;
            if let Err(f) = run_ops::<P>(cfg, oracles, &cand) {
                if f.kind == failure.kind && f.property == failure.property {
                    best = cand[..=f.at_op.min(cand.len() - 1)].to_vec();
                    best_failure = f;
                    progress = true;
                }
            }
        }
    }
    (best, best_failure)
}

// -------------------------------------------------------------------------------------------------
// reporting helpers
// -------------------------------------------------------------------------------------------------

fn ops_json(ops: &[Op]) -> Value {
    Value::Array(ops.iter().map(Op::to_json).collect())
}

fn case_json(sub: &str, payload: usize, cfg: Cfg, oracles: Oracles, ops: &[Op], origin: Value) -> Value {
    json!({
        "driver": "cqmon",
        "sub": sub,
        "payload": payload,
        "payload_name": PAYLOADS[payload],
        "cfg": cfg.to_json(),
        "oracles": {"exact_order": oracles.exact_order, "shadow": oracles.shadow, "walk_every": oracles.walk_every},
        "ops": ops_json(ops),
        "origin": origin,
    })
}

fn report_failure<P: Payload>(
    rep: &mut Report,
    own_property: &str,
    sub: &str,
    payload: usize,
    cfg: Cfg,
    oracles: Oracles,
    ops: &[Op],
    failure: &Failure,
    origin: Value,
) -> bool {
    if failure.property != own_property {
        // a failure that belongs to a sibling property (e.g. a broken list seen by the C15 driver): it is
        // that property's check that raises the alarm. Here it is recorded as information, the history is
        // not counted as evidence, and the worker gives up after a few of them (no point in going on).
        rep.count(&format!("foreign_failures_{}", failure.property), 1);
        rep.info(format!("foreign failure {}/{}: {}", failure.property, failure.kind, failure.detail));
        let seen: u64 = rep.counters.iter().filter(|(k, _)| k.starts_with("foreign_failures_")).map(|(_, v)| *v).sum();
        return seen < 25;
    }
    let (ops, failure) = shrink::<P>(cfg, oracles, ops, failure);
    let signature = format!("{}/{}", failure.property, failure.kind);
    let detail = format!("{} (operation #{} of {})", failure.detail, failure.at_op, ops.len());
    let case = case_json(sub, payload, cfg, oracles, &ops, origin);
    rep.violation(&signature, &detail, case)
}

fn add_stats(rep: &mut Report, s: &Stats) {
    rep.count("ops", s.ops);
    rep.count("adds", s.adds);
    rep.count("fetches", s.fetches);
    rep.count("cancels_of_pending", s.cancels_pending);
    rep.count("cancels_of_fetched", s.cancels_fetched);
    rep.count("cancels_of_cancelled", s.cancels_cancelled);
    rep.count("cancels_of_pending_tie_with_current_time_in_bucket", s.cancel_tie_current_in_bucket);
    rep.count("adds_at_current_time", s.zero_adds);
    rep.count("fetches_from_a_tie_group", s.ties_fetched);
    rep.count("rejected_past_adds", s.past_adds);
    rep.count("year_wraps", s.year_wraps);
    rep.count("structure_walks", s.walks);
    rep.count("bucket_scan_steps", s.scan_steps);
    rep.count("peek_time_checks", s.peeks);
    rep.count("events_pending_at_queue_drop", s.dropped_pending);
    rep.count("queues_dropped_while_unwinding", s.dropped_unwinding);
    rep.max("max_queue_len", s.max_len as u64);
    if s.allocs > 0 {
        rep.count("allocator_allocs", s.allocs);
        rep.count("allocator_frees", s.frees);
        rep.count("allocator_address_reuses", s.reuses);
        rep.max("max_pages_of_one_queue", s.max_pages as u64);
    }
}

fn history_hash(cfg: Cfg, payload: usize, ops: &[Op]) -> u64 {
    let mut h = Hasher64::new();
    h.u64(cfg.n as u64).u64(cfg.t_ns).u64(cfg.page.unwrap_or(0) as u64).u64(payload as u64);
    for op in ops {
        match op {
            Op::Add { time_ns } => h.u64(1).u128(*time_ns),
            Op::AddPast { time_ns } => h.u64(2).u128(*time_ns),
            Op::Cancel { tag } => h.u64(3).u64(*tag as u64),
            Op::Fetch => h.u64(4),
            Op::Peek => h.u64(5),
            Op::DropUnwinding => h.u64(6),
        };
    }
    h.finish()
}

fn walk_every_for(n: usize, rng: &mut Rng) -> usize {
    // the walk is O(n + len): every operation for small queues, sparser for the big ones
    match n {
        0..=32 => 1,
        _ => 16 + rng.usize_below(48),
    }
}

// -------------------------------------------------------------------------------------------------
// small-scope exhaustive enumeration
// -------------------------------------------------------------------------------------------------

const ENUM_CFGS: &[(usize, u64)] = &[(1, 1), (2, 1), (2, 2), (3, 2)];
const ENUM_DELTAS: &[u128] = &[0, 1, 2, 3, 4, 8];

struct EnumCtx<'a> {
    rep: &'a mut Report,
    sub: &'a str,
    own_property: &'a str,
    cfg: Cfg,
    oracles: Oracles,
    depth: usize,
    shard: u64,
    shards: u64,
    leaf_index: u64,
    stop: bool,
}

/// Executes `prefix`, returns the alphabet available afterwards (or the failure).
fn enum_alphabet(cfg: Cfg, oracles: Oracles, prefix: &[Op]) -> Result<(Vec<Op>, Vec<u64>), Failure> {
    let mut r = Runner::<Ident>::new(cfg, oracles);
    r.collect_states = true;
    for op in prefix {
        r.apply(*op)?;
    }
    let mut alpha = Vec::new();
    for d in ENUM_DELTAS {
        alpha.push(Op::Add { time_ns: r.current() + d });
    }
    if r.pending() > 0 {
        alpha.push(Op::Fetch);
    }
    if !matches!(prefix.last(), Some(Op::Peek)) {
        alpha.push(Op::Peek);
    }
    // cancel of any handle: one pending... all tags (handles that were consumed are skipped)
    let cancelled: Vec<usize> = prefix
        .iter()
        .filter_map(|o| if let Op::Cancel { tag } = o { Some(*tag) } else { None })
        .collect();
    for tag in 0..r.tags() {
        if !cancelled.contains(&tag) {
            alpha.push(Op::Cancel { tag });
        }
    }
    let states = std::mem::take(&mut r.state_hashes);
    r.finish()?;
    Ok((alpha, states))
}

fn enum_rec(ctx: &mut EnumCtx<'_>, prefix: &mut Vec<Op>) {
    if ctx.stop {
        return;
    }
    // distribute subtrees of depth 2 over the shards
    if prefix.len() == 2 {
        ctx.leaf_index += 1;
        if ctx.leaf_index % ctx.shards != ctx.shard {
            return;
        }
    }
    match enum_alphabet(ctx.cfg, ctx.oracles, prefix) {
        Err(f) => {
            let ops = prefix.clone();
            let go_on = report_failure::<Ident>(ctx.rep, ctx.own_property, ctx.sub, 0, ctx.cfg, ctx.oracles, &ops, &f, json!({"enumeration": true}));
            if !go_on {
                ctx.stop = true;
            }
        }
        Ok((alpha, states)) => {
            if prefix.len() >= 2 || ctx.shard == 0 {
                for s in states {
                    ctx.rep.state(s);
                }
            }
            if prefix.len() == ctx.depth {
                ctx.rep.eval();
                ctx.rep.count("enumerated_sequences", 1);
                let fetches = prefix.iter().filter(|o| matches!(o, Op::Fetch)).count();
                let cancels = prefix.iter().filter(|o| matches!(o, Op::Cancel { .. })).count();
                if fetches > 0 && (cancels > 0 || fetches > 1) {
                    ctx.rep.nontrivial(history_hash(ctx.cfg, 0, prefix));
                }
                if ctx.rep.wants_sample() && fetches > 1 && cancels > 0 {
                    ctx.rep.sample(json!({"enumerated": true, "cfg": ctx.cfg.to_json(), "ops": ops_json(prefix)}));
                }
                return;
            }
            for op in alpha {
                prefix.push(op);
                enum_rec(ctx, prefix);
                prefix.pop();
                if ctx.stop {
                    return;
                }
            }
        }
    }
}

fn enumerate(rep: &mut Report, args: &Args, sub: &str, own_property: &str, oracles: Oracles, depth: usize) {
    for (n, t) in ENUM_CFGS {
        let cfg = Cfg { n: *n, t_ns: *t, page: None };
        let mut ctx = EnumCtx {
            rep,
            sub,
            own_property,
            cfg,
            oracles,
            depth,
            shard: args.shard,
            shards: args.shards,
            leaf_index: 0,
            stop: false,
        };
        let mut prefix = Vec::new();
        enum_rec(&mut ctx, &mut prefix);
    }
    rep.count("enumeration_depth", 0);
    rep.max("enumeration_depth", depth as u64);
}

// -------------------------------------------------------------------------------------------------
// sub-commands
// -------------------------------------------------------------------------------------------------

thread_local! {
    /// `small=1`: only small bucket counts and no far-future outliers (interpreter / valgrind tiers)
    static SMALL: std::cell::Cell<bool> = const { std::cell::Cell::new(false) };
}

fn small() -> bool {
    SMALL.with(std::cell::Cell::get)
}

fn pick_cfg(rng: &mut Rng) -> Cfg {
    if small() {
        return Cfg {
            n: *rng.pick(&[1usize, 2, 3, 7, 10]),
            t_ns: *rng.pick(TS),
            page: None,
        };
    }
    Cfg {
        n: *rng.pick(NS),
        t_ns: *rng.pick(TS),
        page: None,
    }
}

fn one_random<P: Payload>(
    rep: &mut Report,
    rng: &mut Rng,
    own_property: &str,
    sub: &str,
    payload: usize,
    cfg: Cfg,
    oracles: Oracles,
    prof: Profile,
    case_id: &str,
) -> bool {
    vcommon::mark_case(case_id);
    let (res, ops, states) = gen_history::<P>(rng, cfg, oracles, prof, true);
    rep.eval();
    for s in states {
        rep.state(s);
    }
    match res {
        Ok(stats) => {
            add_stats(rep, &stats);
            if stats.fetches > 0 && (stats.cancels_pending > 0 || stats.ties_fetched > 0) {
                rep.nontrivial(history_hash(cfg, payload, &ops));
            }
            if rep.wants_sample() && ops.len() <= 40 && stats.fetches > 2 {
                rep.sample(json!({"payload": PAYLOADS[payload], "cfg": cfg.to_json(), "ops": ops_json(&ops)}));
            }
            true
        }
        Err(f) => report_failure::<P>(rep, own_property, sub, payload, cfg, oracles, &ops, &f, json!({"case": case_id})),
    }
}

fn cmd_c01(args: &Args) -> Report {
    let mut rep = Report::new("C01");
    let mut rng = Rng::new(args.stream_seed("c01"));
    let max_len = args.extra_u64("len").unwrap_or(if args.thorough() { 3000 } else { 600 }) as usize;
    let cases = args.cases(400_000, 8_000_000);
    for i in 0..cases {
        let cfg = pick_cfg(&mut rng);
        let oracles = Oracles {
            exact_order: false,
            shadow: false,
            walk_every: walk_every_for(cfg.n, &mut rng),
        };
        let len = match rng.below(10) {
            0..=5 => 10 + rng.usize_below(60),
            6..=8 => 50 + rng.usize_below(max_len / 4 + 1),
            _ => max_len / 2 + rng.usize_below(max_len / 2 + 1),
        };
        let prof = Profile {
            len,
            tie_heavy: rng.chance(1, 2),
            cancels: true,
            past_adds: true,
            far: if small() { 0 } else { 2 },
        };
        let id = format!("c01:{}:{}:{}", args.seed, args.shard, i);
        if !one_random::<Ident>(&mut rep, &mut rng, "C01", "c01", 0, cfg, oracles, prof, &id) {
            break;
        }
    }
    // small-scope exhaustive part (does not depend on the seed)
    if args.budget.is_none() {
        let depth = args.extra_u64("enum").unwrap_or(if args.thorough() { 8 } else { 7 }) as usize;
        let oracles = Oracles { exact_order: false, shadow: false, walk_every: 1 };
        enumerate(&mut rep, args, "c01", "C01", oracles, depth);
    }
    rep
}

/// Metamorphic variants of a history for C03: other queue parameters, an unrelated population
/// of far-future events, a junk allocation phase up front.
fn c03_variants(rep: &mut Report, rng: &mut Rng, cfg: Cfg, oracles: Oracles, ops: &[Op], base_order: &[usize]) -> bool {
    let max_time = ops
        .iter()
        .filter_map(|o| if let Op::Add { time_ns } = o { Some(*time_ns) } else { None })
        .max()
        .unwrap_or(0);
    // other queue parameters: any bucket count, and a bucket width that keeps the number of buckets
    // the scan has to skip bounded (the scan is linear in skipped buckets)
    let pick_other = |rng: &mut Rng| -> Cfg {
        let mut c = pick_cfg(rng);
        let horizon = max_time + 10 + u128::from(cfg.t_ns) * (cfg.n as u128) * 4;
        let ok: Vec<u64> = TS.iter().copied().filter(|t| horizon / u128::from(*t) <= 2_000_000).collect();
        c.t_ns = if ok.is_empty() { cfg.t_ns } else { *rng.pick(&ok) };
        c
    };
    for variant in 0..3 {
        let (vcfg, prelude, shift): (Cfg, Vec<Op>, usize) = match variant {
            0 => (pick_other(rng), Vec::new(), 0),
            1 => {
                // unrelated events far behind everything the history touches (never fetched)
                let k = 1 + rng.usize_below(6);
                let far = max_time + 1 + u128::from(cfg.t_ns) * (cfg.n as u128) * 3;
                ((cfg), (0..k).map(|i| Op::Add { time_ns: far + i as u128 * 7 }).collect(), k)
            }
            _ => {
                // junk phase: events that are added and cancelled again (perturbs addresses / free list)
                let k = 1 + rng.usize_below(8);
                let mut p: Vec<Op> = (0..k).map(|i| Op::Add { time_ns: max_time + 5 + i as u128 }).collect();
                let mut tags: Vec<usize> = (0..k).collect();
                rng.shuffle(&mut tags);
                p.extend(tags.into_iter().map(|tag| Op::Cancel { tag }));
                (pick_other(rng), p, k)
            }
        };
        let mut vops = prelude;
        vops.extend(ops.iter().map(|o| match o {
            Op::Cancel { tag } => Op::Cancel { tag: tag + shift },
            o => *o,
        }));
        rep.count("metamorphic_replays", 1);
        match run_ops::<Ident>(vcfg, oracles, &vops) {
            Ok((_, order)) => {
                let projected: Vec<usize> = order.iter().filter(|t| **t >= shift).map(|t| t - shift).collect();
                if projected != base_order {
                    let pos = projected.iter().zip(base_order).position(|(a, b)| a != b).unwrap_or(0);
                    let detail = format!(
                        "dispatch order depends on {}: position {pos} differs between {:?} and {:?}",
                        ["queue parameters", "unrelated events", "allocation history / queue parameters"][variant],
                        cfg.to_json(),
                        vcfg.to_json()
                    );
                    let case = case_json("c03", 0, vcfg, oracles, &vops, json!({"metamorphic_of": cfg.to_json(), "base_order": base_order}));
                    if !rep.violation("C03/order-depends-on-context", &detail, case) {
                        return false;
                    }
                }
            }
            Err(f) => {
                if !report_failure::<Ident>(rep, "C03", "c03", 0, vcfg, oracles, &vops, &f, json!({"metamorphic_variant": variant})) {
                    return false;
                }
            }
        }
    }
    true
}

fn cmd_c03(args: &Args) -> Report {
    let mut rep = Report::new("C03");
    let mut rng = Rng::new(args.stream_seed("c03"));
    let max_len = args.extra_u64("len").unwrap_or(if args.thorough() { 2000 } else { 400 }) as usize;
    let cases = args.cases(300_000, 5_000_000);
    for i in 0..cases {
        let cfg = pick_cfg(&mut rng);
        let oracles = Oracles {
            exact_order: true,
            shadow: false,
            walk_every: if cfg.n <= 32 { 4 } else { 64 },
        };
        let len = match rng.below(10) {
            0..=5 => 10 + rng.usize_below(60),
            6..=8 => 50 + rng.usize_below(max_len / 4 + 1),
            _ => max_len / 2 + rng.usize_below(max_len / 2 + 1),
        };
        let prof = Profile {
            len,
            tie_heavy: true,
            cancels: rng.chance(1, 2),
            past_adds: false,
            far: if small() { 0 } else { 1 },
        };
        let id = format!("c03:{}:{}:{}", args.seed, args.shard, i);
        vcommon::mark_case(&id);
        let (res, ops, _) = gen_history::<Ident>(&mut rng, cfg, oracles, prof, false);
        rep.eval();
        match res {
            Ok(stats) => {
                add_stats(&mut rep, &stats);
                if stats.ties_fetched > 0 {
                    rep.nontrivial(history_hash(cfg, 0, &ops));
                }
                if rep.wants_sample() && ops.len() <= 40 && stats.ties_fetched > 1 {
                    rep.sample(json!({"cfg": cfg.to_json(), "ops": ops_json(&ops)}));
                }
                // metamorphic replays on a fraction of the histories
                if ops.len() <= 400 && rng.chance(1, 4) {
                    match run_ops::<Ident>(cfg, oracles, &ops) {
                        Ok((_, base_order)) => {
                            if !c03_variants(&mut rep, &mut rng, cfg, oracles, &ops, &base_order) {
                                break;
                            }
                        }
                        Err(f) => {
                            if !report_failure::<Ident>(&mut rep, "C03", "c03", 0, cfg, oracles, &ops, &f, json!({"case": id, "rerun": true})) {
                                break;
                            }
                        }
                    }
                }
            }
            Err(f) => {
                if !report_failure::<Ident>(&mut rep, "C03", "c03", 0, cfg, oracles, &ops, &f, json!({"case": id})) {
                    break;
                }
            }
        }
    }
    if args.budget.is_none() {
        let depth = args.extra_u64("enum").unwrap_or(if args.thorough() { 8 } else { 7 }) as usize;
        let oracles = Oracles { exact_order: true, shadow: false, walk_every: 1 };
        enumerate(&mut rep, args, "c03", "C03", oracles, depth);
    }
    rep
}

const PAGES: &[usize] = &[256, 512, 1024, 4096, 8192, 65536];

fn node_size<P>() -> usize {
    // size of the internal list node for payload P: Option<P> + Duration + id + two pointers,
    // rounded generously; only used to decide which page sizes "fit" (the precondition of C15)
    let opt = std::mem::size_of::<Option<P>>();
    let align = std::mem::align_of::<P>().max(8);
    let raw = opt + 16 + 8 + 16;
    (raw + align - 1) / align * align + align
}

fn c15_one<P: Payload>(rep: &mut Report, rng: &mut Rng, args: &Args, payload: usize, i: u64, max_len: usize) -> bool {
    let fits: Vec<usize> = PAGES.iter().copied().filter(|p| *p >= node_size::<P>().max(64)).collect();
    let page = if rng.chance(1, 5) { None } else { Some(*rng.pick(&fits)) };
    let cfg = Cfg {
        n: *rng.pick(&[1usize, 2, 3, 7, 10, 32]),
        t_ns: *rng.pick(TS),
        page,
    };
    let oracles = Oracles {
        exact_order: false,
        shadow: true,
        walk_every: 1 + rng.usize_below(24),
    };
    let len = match rng.below(10) {
        0..=4 => 10 + rng.usize_below(80),
        5..=8 => 80 + rng.usize_below(max_len / 3 + 1),
        _ => max_len / 2 + rng.usize_below(max_len / 2 + 1),
    };
    let prof = Profile {
        len,
        tie_heavy: rng.chance(1, 3),
        cancels: true,
        past_adds: true,
        far: if small() { 0 } else { 1 },
    };
    let id = format!("c15:{}:{}:{}", args.seed, args.shard, i);
    one_random::<P>(rep, rng, "C15", "c15", payload, cfg, oracles, prof, &id)
}

fn cmd_c15(args: &Args) -> Report {
    let mut rep = Report::new("C15");
    let mut rng = Rng::new(args.stream_seed("c15"));
    let max_len = args.extra_u64("len").unwrap_or(if args.thorough() { 6000 } else { 1500 }) as usize;
    let cases = args.cases(300_000, 4_000_000);
    for i in 0..cases {
        // every payload type in turn, the big ones a little less often
        let payload = match rng.below(22) {
            0..=1 => 0,
            2..=3 => 1,
            4..=5 => 2,
            6..=7 => 3,
            8..=10 => 4,
            11..=12 => 5,
            13..=15 => 6,
            16..=17 => 7,
            18..=19 => 8,
            _ => 9,
        };
        rep.count(&format!("histories_payload_{}", PAYLOADS[payload]), 1);
        let go_on = with_payload!(payload, c15_one(&mut rep, &mut rng, args, payload, i, max_len));
        if !go_on {
            break;
        }
    }
    rep
}

fn replay_run<P: Payload>(cfg: Cfg, oracles: Oracles, ops: &[Op]) -> Result<(Stats, Vec<usize>), Failure> {
    run_ops::<P>(cfg, oracles, ops)
}

fn cmd_replay(path: &str) -> i32 {
    let text = std::fs::read_to_string(path).expect("cannot read replay file");
    let v: Value = serde_json::from_str(&text).expect("replay file is not JSON");
    let case = v.get("case").unwrap_or(&v);
    let payload = case.get("payload").and_then(Value::as_u64).expect("payload") as usize;
    let cfg = Cfg::from_json(case.get("cfg").expect("cfg")).expect("cfg");
    let o = case.get("oracles").expect("oracles");
    let oracles = Oracles {
        exact_order: o.get("exact_order").and_then(Value::as_bool).unwrap_or(false),
        shadow: o.get("shadow").and_then(Value::as_bool).unwrap_or(false),
        walk_every: 1,
    };
    let ops: Vec<Op> = case
        .get("ops")
        .and_then(Value::as_array)
        .expect("ops")
        .iter()
        .map(|o| Op::from_json(o).expect("op"))
        .collect();
    println!("replaying {} operations on CQueue<{}> with {:?}", ops.len(), PAYLOADS[payload], cfg);
    for (i, op) in ops.iter().enumerate() {
        println!("  #{i}: {}", op.to_json());
    }
    let res = with_payload!(payload, replay_run(cfg, oracles, &ops));
    match res {
        Ok((_, order)) => {
            println!("no violation; fetch order = {order:?}");
            0
        }
        Err(f) => {
            println!("VIOLATION reproduced: {}/{} at operation #{}: {}", f.property, f.kind, f.at_op, f.detail);
            1
        }
    }
}

fn main() {
    let args = Args::parse();
    vcommon::quiet_panics();
    SMALL.with(|s| s.set(args.extra.contains_key("small")));
    if args.cmd == "noop" {
        return;
    }
    if args.cmd == "replay" {
        let path = args.replay.clone().or_else(|| args.extra.get("file").cloned()).expect("replay needs --replay <file>");
        std::process::exit(cmd_replay(&path));
    }
    let rep = match args.cmd.as_str() {
        "c01" => cmd_c01(&args),
        "c03" => cmd_c03(&args),
        "c15" => cmd_c15(&args),
        other => {
            eprintln!("unknown sub-command {other}");
            std::process::exit(2);
        }
    };
    rep.finish();
}
