//! One queue under observation: the real `CQueue<P>`, the sequential reference model, the
//! allocator shadow map and the drop registry, advanced together operation by operation.

use crate::payload::{self, Payload};
use des_cqueue::verif::{self, AllocEvent, VerifSnapshot};
use des_cqueue::{CQueue, EventHandle};
use serde_json::{json, Value};
use std::cell::RefCell;
use std::collections::{BTreeMap, VecDeque};
use std::rc::Rc;
use std::time::Duration;
use vcommon::Hasher64;

/// An operation of a history. Events are identified by `tag` = index of their add operation.
#[derive(Debug, Clone, Copy, PartialEq, Eq)]
pub enum Op {
    Add { time_ns: u128 },
    /// add with a time before the current queue time: must panic, queue unchanged
    AddPast { time_ns: u128 },
    Cancel { tag: usize },
    Fetch,
    /// `peek_time()` at an arbitrary point: must report the smallest pending timestamp and change nothing
    Peek,
    /// marks the history: at the end the queue goes out of scope while the thread unwinds from a panic
    DropUnwinding,
}

impl Op {
    pub fn to_json(&self) -> Value {
        match self {
            Op::Add { time_ns } => json!({"add": time_ns.to_string()}),
            Op::AddPast { time_ns } => json!({"add_past": time_ns.to_string()}),
            Op::Cancel { tag } => json!({"cancel": tag}),
            Op::Fetch => json!("fetch"),
            Op::Peek => json!("peek"),
            Op::DropUnwinding => json!("drop_unwinding"),
        }
    }

    pub fn from_json(v: &Value) -> Option<Op> {
        if v.as_str() == Some("fetch") {
            return Some(Op::Fetch);
        }
        if v.as_str() == Some("peek") {
            return Some(Op::Peek);
        }
        if v.as_str() == Some("drop_unwinding") {
            return Some(Op::DropUnwinding);
        }
        let o = v.as_object()?;
        if let Some(t) = o.get("add") {
            return Some(Op::Add {
                time_ns: t.as_str()?.parse().ok()?,
            });
        }
        if let Some(t) = o.get("add_past") {
            return Some(Op::AddPast {
                time_ns: t.as_str()?.parse().ok()?,
            });
        }
        if let Some(t) = o.get("cancel") {
            return Some(Op::Cancel {
                tag: t.as_u64()? as usize,
            });
        }
        None
    }
}

#[derive(Debug, Clone, Copy, PartialEq, Eq)]
pub struct Cfg {
    pub n: usize,
    pub t_ns: u64,
    /// explicit allocator page size (hook H2); None = system page size through `CQueue::new`
    pub page: Option<usize>,
}

impl Cfg {
    pub fn to_json(&self) -> Value {
        json!({"n": self.n, "t_ns": self.t_ns, "page": self.page})
    }
    pub fn from_json(v: &Value) -> Option<Cfg> {
        Some(Cfg {
            n: v.get("n")?.as_u64()? as usize,
            t_ns: v.get("t_ns")?.as_u64()?,
            page: v.get("page").and_then(Value::as_u64).map(|p| p as usize),
        })
    }
}

#[derive(Debug, Clone, Copy, PartialEq, Eq)]
enum Status {
    Pending,
    Fetched,
    Cancelled,
}

/// What went wrong. `kind` is the stable part used for the signature.
#[derive(Debug, Clone)]
pub struct Failure {
    pub property: &'static str,
    pub kind: &'static str,
    pub detail: String,
    pub at_op: usize,
}

/// Which oracles are active.
#[derive(Debug, Clone, Copy)]
pub struct Oracles {
    /// exact tie order (C03); otherwise any event of the minimal timestamp is accepted (C01)
    pub exact_order: bool,
    /// allocator shadow map + node address cross-check (C15)
    pub shadow: bool,
    /// run the structure walk (H1) every `walk_every` operations (0 = only at the end)
    pub walk_every: usize,
}

#[derive(Default)]
struct Shadow {
    /// page start -> len (pages currently owned)
    pages: BTreeMap<usize, usize>,
    /// region start -> size (live regions)
    live: BTreeMap<usize, usize>,
    released: BTreeMap<usize, usize>,
    pub allocs: u64,
    pub frees: u64,
    pub reuses: u64,
    /// start addresses that were live at some point (to count reuse)
    seen: std::collections::HashSet<usize>,
    pub max_pages: usize,
    error: Option<(&'static str, String)>,
}

impl Shadow {
    fn fail(&mut self, kind: &'static str, detail: String) {
        if self.error.is_none() {
            self.error = Some((kind, detail));
        }
    }

    fn apply(&mut self, ev: AllocEvent) {
        match ev {
            AllocEvent::Page { addr, len, .. } => {
                // a new page must not overlap an owned page
                if let Some((&p, &l)) = self.pages.range(..=addr).next_back() {
                    if p + l > addr {
                        self.fail("page-overlap", format!("new page {addr:#x}+{len} overlaps owned page {p:#x}+{l}"));
                    }
                }
                if let Some((&p, _)) = self.pages.range(addr..).next() {
                    if addr + len > p {
                        self.fail("page-overlap", format!("new page {addr:#x}+{len} overlaps owned page {p:#x}"));
                    }
                }
                self.pages.insert(addr, len);
                self.max_pages = self.max_pages.max(self.pages.len());
            }
            AllocEvent::Alloc {
                addr,
                size,
                align,
                req_size,
                req_align,
                ..
            } => {
                self.allocs += 1;
                if size < req_size || align < req_align || !align.is_power_of_two() {
                    self.fail("layout", format!("granted size {size} / align {align} below the requested {req_size} / {req_align}"));
                }
                if addr % req_align != 0 || addr % align != 0 {
                    self.fail("misaligned", format!("region {addr:#x} is not aligned to {align} (requested {req_align})"));
                }
                // inside one owned page
                match self.pages.range(..=addr).next_back() {
                    Some((&p, &l)) if addr + size <= p + l => {}
                    Some((&p, &l)) => self.fail("out-of-page", format!("region {addr:#x}+{size} leaves its page {p:#x}+{l}")),
                    None => self.fail("out-of-page", format!("region {addr:#x}+{size} lies in no owned page")),
                }
                // disjoint from live regions
                if let Some((&a, &s)) = self.live.range(..=addr).next_back() {
                    if a + s > addr {
                        self.fail("overlap", format!("region {addr:#x}+{size} overlaps live region {a:#x}+{s}"));
                    }
                }
                if let Some((&a, &s)) = self.live.range(addr + 1..).next() {
                    if addr + size > a {
                        self.fail("overlap", format!("region {addr:#x}+{size} overlaps live region {a:#x}+{s}"));
                    }
                }
                if !self.seen.insert(addr) {
                    self.reuses += 1;
                }
                self.live.insert(addr, size);
            }
            AllocEvent::Free { addr, size, .. } => {
                self.frees += 1;
                match self.live.remove(&addr) {
                    Some(s) if s == size => {}
                    Some(s) => self.fail("free-size", format!("region {addr:#x} freed with size {size}, allocated with {s}")),
                    None => self.fail("free-unknown", format!("free of {addr:#x}+{size} which is not a live region")),
                }
            }
            AllocEvent::ReleasePage { addr, len, .. } => {
                match self.pages.remove(&addr) {
                    Some(l) if l == len => {}
                    Some(l) => self.fail("release-size", format!("page {addr:#x} released with len {len}, obtained with {l}")),
                    None => {
                        if self.released.contains_key(&addr) {
                            self.fail("double-release", format!("page {addr:#x} released twice"));
                        } else {
                            self.fail("release-unknown", format!("release of unknown page {addr:#x}"));
                        }
                    }
                }
                if let Some((&a, &s)) = self.live.range(addr..addr + len).next() {
                    self.fail("release-live", format!("page {addr:#x} released while region {a:#x}+{s} is live"));
                }
                self.released.insert(addr, len);
            }
        }
    }
}

pub struct Stats {
    pub ops: u64,
    pub adds: u64,
    pub fetches: u64,
    pub cancels_pending: u64,
    pub cancels_fetched: u64,
    pub cancels_cancelled: u64,
    pub cancel_tie_current_in_bucket: u64,
    pub zero_adds: u64,
    pub ties_fetched: u64,
    pub past_adds: u64,
    pub year_wraps: u64,
    pub max_len: usize,
    pub walks: u64,
    pub scan_steps: u64,
    pub allocs: u64,
    pub frees: u64,
    pub reuses: u64,
    pub max_pages: usize,
    pub dropped_pending: u64,
    pub dropped_unwinding: u64,
    pub peeks: u64,
}

pub struct Runner<P: Payload> {
    pub cfg: Cfg,
    oracles: Oracles,
    q: Option<CQueue<P>>,
    handles: Vec<Option<EventHandle<P>>>,
    // model
    times: Vec<u128>,
    status: Vec<Status>,
    current: u128,
    zero: VecDeque<usize>,
    future: BTreeMap<u128, VecDeque<usize>>,
    pending: usize,
    last_fetch_time: u128,
    // window tracking through the scan counter
    window_steps: u128,
    // shadow
    shadow: Rc<RefCell<Shadow>>,
    prev_observer: Option<Option<Box<dyn FnMut(AllocEvent)>>>,
    pub ops: Vec<Op>,
    pub stats: Stats,
    pub state_hashes: Vec<u64>,
    /// the final drop of the queue happens during unwinding (see `Op::DropUnwinding`)
    pub drop_unwinding: bool,
    pub collect_states: bool,
    since_walk: usize,
    anon_expected: u64,
}

impl<P: Payload> Runner<P> {
    pub fn new(cfg: Cfg, oracles: Oracles) -> Self {
        payload::drops_reset();
        let shadow = Rc::new(RefCell::new(Shadow::default()));
        let prev_observer = if oracles.shadow {
            let sh = shadow.clone();
            Some(verif::set_alloc_observer(Some(Box::new(move |ev| {
                sh.borrow_mut().apply(ev);
            }))))
        } else {
            None
        };
        let t = Duration::from_nanos(cfg.t_ns);
        let q = match cfg.page {
            Some(page) => CQueue::verif_with_page_size(cfg.n, t, page),
            None => CQueue::new(cfg.n, t),
        };
        Runner {
            cfg,
            oracles,
            q: Some(q),
            handles: Vec::new(),
            times: Vec::new(),
            status: Vec::new(),
            current: 0,
            zero: VecDeque::new(),
            future: BTreeMap::new(),
            pending: 0,
            last_fetch_time: 0,
            window_steps: 0,
            shadow,
            prev_observer,
            ops: Vec::new(),
            stats: Stats {
                ops: 0,
                adds: 0,
                fetches: 0,
                cancels_pending: 0,
                cancels_fetched: 0,
                cancels_cancelled: 0,
                cancel_tie_current_in_bucket: 0,
                zero_adds: 0,
                ties_fetched: 0,
                past_adds: 0,
                year_wraps: 0,
                max_len: 0,
                walks: 0,
                scan_steps: 0,
                allocs: 0,
                frees: 0,
                reuses: 0,
                max_pages: 0,
                dropped_pending: 0,
                dropped_unwinding: 0,
                peeks: 0,
            },
            state_hashes: Vec::new(),
            drop_unwinding: false,
            collect_states: false,
            since_walk: 0,
            anon_expected: 0,
        }
    }

    // ---- views for the generators -------------------------------------------------------------

    pub fn current(&self) -> u128 {
        self.current
    }
    pub fn pending(&self) -> usize {
        self.pending
    }
    pub fn tags(&self) -> usize {
        self.times.len()
    }
    pub fn is_pending(&self, tag: usize) -> bool {
        self.status[tag] == Status::Pending
    }
    pub fn time_of(&self, tag: usize) -> u128 {
        self.times[tag]
    }
    /// smallest pending timestamp
    pub fn model_min(&self) -> Option<u128> {
        if !self.zero.is_empty() {
            Some(self.current)
        } else {
            self.future.keys().next().copied()
        }
    }
    /// some pending timestamps (for tie generation)
    pub fn pending_time_sample(&self, pick: u64) -> Option<u128> {
        if self.future.is_empty() {
            return None;
        }
        let idx = (pick as usize) % self.future.len().min(64);
        self.future.keys().nth(idx).copied()
    }
    pub fn max_pending_time(&self) -> Option<u128> {
        self.future.keys().next_back().copied()
    }

    fn fail(&self, property: &'static str, kind: &'static str, detail: String) -> Failure {
        Failure {
            property,
            kind,
            detail,
            at_op: self.ops.len().saturating_sub(1),
        }
    }

    fn order_property(&self) -> &'static str {
        if self.oracles.exact_order {
            "C03"
        } else {
            "C01"
        }
    }

    // ---- common post-operation checks -----------------------------------------------------------

    fn after_op(&mut self, force_walk: bool) -> Result<(), Failure> {
        self.stats.ops += 1;
        let q = self.q.as_ref().expect("queue alive");
        // public accounting
        if q.len() != self.pending {
            return Err(self.fail(
                "C01",
                "len",
                format!("len() = {} but scheduled - cancelled - fetched = {}", q.len(), self.pending),
            ));
        }
        if q.is_empty() != (self.pending == 0) {
            return Err(self.fail("C01", "is_empty", format!("is_empty() = {} with {} pending", q.is_empty(), self.pending)));
        }
        if q.time().as_nanos() != self.last_fetch_time {
            return Err(self.fail(
                "C01",
                "time",
                format!("time() = {:?} but the last fetched timestamp is {} ns", q.time(), self.last_fetch_time),
            ));
        }
        if q.len_zero() + q.len_nonzero() != q.len() {
            return Err(self.fail("C01", "len-split", "len_zero + len_nonzero != len".to_string()));
        }
        self.stats.max_len = self.stats.max_len.max(self.pending);

        // allocator shadow
        if self.oracles.shadow {
            let err = self.shadow.borrow_mut().error.take();
            if let Some((kind, detail)) = err {
                return Err(self.fail("C15", kind, detail));
            }
        }

        self.since_walk += 1;
        let walk = force_walk
            || (self.oracles.walk_every > 0 && self.since_walk >= self.oracles.walk_every);
        if walk {
            self.walk()?;
        }
        Ok(())
    }

    /// H1: structural walk + cross checks with the model and the shadow map
    pub fn walk(&mut self) -> Result<(), Failure> {
        self.since_walk = 0;
        self.stats.walks += 1;
        let q = self.q.as_ref().expect("queue alive");
        let snap: VerifSnapshot = match q.verif_check() {
            Ok(s) => s,
            Err(e) => return Err(self.fail("C01", "structure", e)),
        };
        // model cross-check: multiset of (time) per id is not accessible (ids are internal), but
        // the multiset of timestamps must agree with the model
        let mut impl_times: Vec<u128> = snap
            .buckets
            .iter()
            .flat_map(|b| b.iter().map(|(t, _, _)| t.as_nanos()))
            .chain(snap.zero.iter().map(|(t, _)| t.as_nanos()))
            .collect();
        impl_times.sort_unstable();
        let mut model_times: Vec<u128> = self
            .future
            .iter()
            .flat_map(|(t, v)| std::iter::repeat(*t).take(v.len()))
            .chain(std::iter::repeat(self.current).take(self.zero.len()))
            .collect();
        model_times.sort_unstable();
        if impl_times != model_times {
            return Err(self.fail(
                "C01",
                "stored-times",
                format!("stored timestamps differ from the pending set: impl {} entries, model {} entries", impl_times.len(), model_times.len()),
            ));
        }
        if snap.t_current.as_nanos() != self.last_fetch_time {
            return Err(self.fail("C01", "structure", "t_current differs from the last fetched time".into()));
        }
        if self.oracles.shadow {
            let sh = self.shadow.borrow();
            for b in &snap.buckets {
                for (_, id, addr) in b {
                    if !sh.live.contains_key(addr) {
                        return Err(self.fail(
                            "C15",
                            "node-not-live",
                            format!("node of event #{id} at {addr:#x} is not a live allocator region"),
                        ));
                    }
                }
            }
            let nodes: usize = snap.buckets.iter().map(Vec::len).sum();
            // live regions: one per node plus two sentinels per bucket
            if sh.live.len() != nodes + 2 * snap.n {
                return Err(self.fail(
                    "C15",
                    "live-count",
                    format!("{} live regions for {} nodes and {} sentinels", sh.live.len(), nodes, 2 * snap.n),
                ));
            }
        }
        if self.collect_states {
            let mut h = Hasher64::new();
            h.u64(snap.n as u64).u64(snap.head as u64).u64(snap.zero.len() as u64);
            for (i, b) in snap.buckets.iter().enumerate() {
                if !b.is_empty() {
                    h.u64(i as u64).u64(b.len() as u64);
                    // relative position of the first entry to the window (behind / inside / ahead)
                    let first = b[0].0;
                    let rel = if first < snap.t0 {
                        0
                    } else if first <= snap.t1 {
                        1
                    } else {
                        2
                    };
                    h.u64(rel);
                }
            }
            self.state_hashes.push(h.finish());
        }
        Ok(())
    }

    // ---- operations ---------------------------------------------------------------------------------

    pub fn apply(&mut self, op: Op) -> Result<(), Failure> {
        match op {
            Op::Add { time_ns } => self.add(time_ns),
            Op::AddPast { time_ns } => self.add_past(time_ns),
            Op::Cancel { tag } => self.cancel(tag),
            Op::Fetch => self.fetch(),
            Op::Peek => self.peek(),
            Op::DropUnwinding => {
                self.drop_unwinding = true;
                self.ops.push(Op::DropUnwinding);
                Ok(())
            }
        }
    }

    /// the scan bound (hook H7) for a scan that has to reach `target`
    fn scan_limit(&self, target: u128) -> u64 {
        let t = u128::from(self.cfg.t_ns);
        let t0 = self.window_steps * t;
        let dist = if target > t0 { (target - t0) / t } else { 0 };
        (dist + self.cfg.n as u128 + 2).min(u128::from(u64::MAX / 2)) as u64
    }

    pub fn peek(&mut self) -> Result<(), Failure> {
        self.ops.push(Op::Peek);
        let expected = self.model_min();
        verif::scan_reset(Some(self.scan_limit(expected.unwrap_or(0))));
        let peek = vcommon::catch(|| self.q.as_mut().unwrap().peek_time());
        verif::scan_reset(None);
        self.stats.peeks += 1;
        match peek {
            Err(msg) => {
                let kind = if msg.contains("step limit") { "scan-runaway" } else { "peek-panicked" };
                return Err(self.fail("C01", kind, format!("peek_time with {} pending events panicked: {msg}", self.pending)));
            }
            Ok(p) => {
                if p.map(|d| d.as_nanos()) != expected {
                    return Err(self.fail(
                        "C01",
                        "peek-time",
                        format!("peek_time() = {p:?} but the smallest pending timestamp is {expected:?} ns"),
                    ));
                }
            }
        }
        self.after_op(false)
    }

    fn dur(ns: u128) -> Duration {
        Duration::new((ns / 1_000_000_000) as u64, (ns % 1_000_000_000) as u32)
    }

    pub fn add(&mut self, time_ns: u128) -> Result<(), Failure> {
        assert!(time_ns >= self.current, "generator bug: add in the past");
        self.ops.push(Op::Add { time_ns });
        let tag = self.times.len();
        let id = tag as u64;
        let value = P::make(id);
        verif::list_reset(Some(self.pending as u64 + 8));
        let res = vcommon::catch(|| self.q.as_mut().unwrap().add(Self::dur(time_ns), value));
        verif::list_reset(None);
        let handle = match res {
            Ok(h) => h,
            Err(msg) => {
                if msg.contains("step limit") {
                    std::mem::forget(self.q.take());
                    return Err(self.fail("C01", "list-cycle", format!("add({time_ns} ns) walked more list nodes than events are pending: {msg}")));
                }
                return Err(self.fail("C01", "add-panicked", format!("add({time_ns} ns) at queue time {} ns panicked: {msg}", self.current)));
            }
        };
        self.handles.push(Some(handle));
        self.times.push(time_ns);
        self.status.push(Status::Pending);
        self.pending += 1;
        self.stats.adds += 1;
        if time_ns == self.current {
            self.zero.push_back(tag);
            self.stats.zero_adds += 1;
        } else {
            self.future.entry(time_ns).or_default().push_back(tag);
        }
        self.after_op(false)
    }

    pub fn add_past(&mut self, time_ns: u128) -> Result<(), Failure> {
        assert!(time_ns < self.current, "generator bug: add_past in the future");
        self.ops.push(Op::AddPast { time_ns });
        // the payload gets an id outside the tag space, it must be dropped exactly once
        let id = payload::PAST_BASE + self.stats.past_adds;
        let value = P::make(id);
        let res = vcommon::catch(|| self.q.as_mut().unwrap().add(Self::dur(time_ns), value));
        self.stats.past_adds += 1;
        if std::mem::size_of::<P>() == 0 {
            self.anon_expected += 1;
        }
        match res {
            Err(_) => {
                if P::REPORTS_DROP && payload::drop_count(id) != 1 {
                    return Err(self.fail("C15", "drop-count", format!("payload of a rejected add was dropped {} times", payload::drop_count(id))));
                }
            }
            Ok(_) => {
                return Err(self.fail(
                    "C01",
                    "past-add-accepted",
                    format!("add({time_ns} ns) was accepted although the queue time is {} ns", self.current),
                ));
            }
        }
        self.after_op(true)
    }

    pub fn cancel(&mut self, tag: usize) -> Result<(), Failure> {
        self.ops.push(Op::Cancel { tag });
        let Some(handle) = self.handles[tag].take() else {
            // handle already consumed by an earlier cancel: nothing to do (not an operation)
            self.ops.pop();
            return Ok(());
        };
        let was = self.status[tag];
        let time = self.times[tag];
        if was == Status::Pending && time == self.current && !self.zero.contains(&tag) {
            self.stats.cancel_tie_current_in_bucket += 1;
        }
        verif::list_reset(Some(self.pending as u64 + 8));
        let res = vcommon::catch(|| self.q.as_mut().unwrap().cancel(handle));
        verif::list_reset(None);
        if let Err(msg) = res {
            if msg.contains("step limit") {
                std::mem::forget(self.q.take());
                return Err(self.fail("C01", "list-cycle", format!("cancel of event {tag} walked more list nodes than events are pending: {msg}")));
            }
            return Err(self.fail("C01", "cancel-panicked", format!("cancel of event {tag} panicked: {msg}")));
        }
        match was {
            Status::Pending => {
                self.status[tag] = Status::Cancelled;
                self.pending -= 1;
                self.stats.cancels_pending += 1;
                if let Some(pos) = self.zero.iter().position(|t| *t == tag) {
                    self.zero.remove(pos);
                } else {
                    let list = self.future.get_mut(&time).expect("model: pending event listed");
                    let pos = list.iter().position(|t| *t == tag).expect("model: pending event listed");
                    list.remove(pos);
                    if list.is_empty() {
                        self.future.remove(&time);
                    }
                }
                if std::mem::size_of::<P>() == 0 {
                    self.anon_expected += 1;
                }
                if P::REPORTS_DROP && payload::drop_count(tag as u64) != 1 {
                    // checked before the len check so that the signature names the drop
                    let q = self.q.as_ref().unwrap();
                    if q.len() == self.pending {
                        return Err(self.fail(
                            "C15",
                            "drop-count",
                            format!("payload of cancelled event {tag} was dropped {} times at cancel", payload::drop_count(tag as u64)),
                        ));
                    }
                }
            }
            Status::Fetched => self.stats.cancels_fetched += 1,
            Status::Cancelled => self.stats.cancels_cancelled += 1,
        }
        self.after_op(false)
    }

    pub fn fetch(&mut self) -> Result<(), Failure> {
        assert!(self.pending > 0, "generator bug: fetch on empty queue");
        self.ops.push(Op::Fetch);
        // model expectation
        let (exp_time, from_zero) = if self.zero.is_empty() {
            (*self.future.keys().next().unwrap(), false)
        } else {
            (self.current, true)
        };
        // H7: bound the bucket scans by what the structure admits
        let t = u128::from(self.cfg.t_ns);
        let t0 = self.window_steps * t;
        let dist = if exp_time > t0 { (exp_time - t0) / t } else { 0 };
        let limit = (dist + self.cfg.n as u128 + 2).min(u128::from(u64::MAX / 2)) as u64;

        // peek_time must agree and must not change anything
        verif::scan_reset(Some(limit));
        let peek = vcommon::catch(|| self.q.as_mut().unwrap().peek_time());
        self.stats.peeks += 1;
        let peek = match peek {
            Ok(p) => p,
            Err(msg) => {
                verif::scan_reset(None);
                let kind = if msg.contains("step limit") { "scan-runaway" } else { "peek-panicked" };
                return Err(self.fail("C01", kind, format!("peek_time with {} pending events panicked: {msg}", self.pending)));
            }
        };
        if peek.map(|d| d.as_nanos()) != Some(exp_time) {
            verif::scan_reset(None);
            return Err(self.fail(
                "C01",
                "peek-time",
                format!("peek_time() = {peek:?} but the smallest pending timestamp is {exp_time} ns"),
            ));
        }

        verif::scan_reset(Some(limit));
        let res = vcommon::catch(|| self.q.as_mut().unwrap().fetch_next());
        let steps = verif::scan_steps();
        verif::scan_reset(None);
        self.window_steps += u128::from(steps);
        self.stats.scan_steps += steps;
        let (value, time) = match res {
            Ok(v) => v,
            Err(msg) => {
                let kind = if msg.contains("step limit") { "scan-runaway" } else { "fetch-panicked" };
                // the queue may be in an inconsistent state: do not touch it again
                std::mem::forget(self.q.take());
                return Err(self.fail("C01", kind, format!("fetch_next with {} pending events panicked: {msg}", self.pending)));
            }
        };
        self.stats.fetches += 1;
        let time_ns = time.as_nanos();

        // --- which event is it?
        let candidates: Vec<usize> = if from_zero {
            self.zero.iter().copied().collect()
        } else {
            self.future[&exp_time].iter().copied().collect()
        };
        if candidates.len() > 1 {
            self.stats.ties_fetched += 1;
        }
        let exact = candidates[0];
        let got: Option<usize> = if let Some(id) = value.id() {
            Some(id as usize)
        } else {
            // value cannot carry its id: the first candidate (model order) whose pattern matches
            candidates.iter().copied().find(|c| value.matches(*c as u64))
        };

        if time_ns < self.last_fetch_time {
            return Err(self.fail("C01", "time-decreased", format!("fetched timestamp {time_ns} ns after {} ns", self.last_fetch_time)));
        }
        let Some(got) = got else {
            return Err(self.fail(
                "C15",
                "payload-corrupt",
                format!("fetched value at {time_ns} ns matches the bit pattern of no pending event of the smallest timestamp {exp_time} ns"),
            ));
        };
        if got >= self.status.len() {
            return Err(self.fail("C15", "payload-corrupt", format!("fetched value carries the unknown id {got}")));
        }
        if self.status[got] != Status::Pending {
            let kind = match self.status[got] {
                Status::Cancelled => "cancelled-returned",
                _ => "returned-twice",
            };
            return Err(self.fail("C01", kind, format!("fetch returned event {got} ({:?}) at {time_ns} ns", self.status[got])));
        }
        if !value.matches(got as u64) {
            return Err(self.fail("C15", "payload-corrupt", format!("value of event {got} is not bit-for-bit what was inserted")));
        }
        if self.times[got] != time_ns {
            return Err(self.fail(
                "C01",
                "wrong-timestamp",
                format!("event {got} was scheduled for {} ns but returned with {time_ns} ns", self.times[got]),
            ));
        }
        if time_ns != exp_time {
            return Err(self.fail(
                "C01",
                "not-minimum",
                format!("fetch returned event {got} at {time_ns} ns while an event at {exp_time} ns is pending"),
            ));
        }
        if self.oracles.exact_order && got != exact {
            return Err(self.fail(
                "C03",
                "tie-order",
                format!(
                    "events at {exp_time} ns: expected event {exact} (scheduling order{}) but event {got} was returned",
                    if from_zero { ", current-instant group" } else { "" }
                ),
            ));
        }
        if P::REPORTS_DROP && payload::drop_count(got as u64) != 0 {
            return Err(self.fail("C15", "drop-count", format!("payload of event {got} was dropped while it was still in the queue")));
        }

        // --- advance the model
        if from_zero {
            let pos = self.zero.iter().position(|t| *t == got).unwrap();
            self.zero.remove(pos);
        } else {
            let list = self.future.get_mut(&exp_time).unwrap();
            let pos = list.iter().position(|t| *t == got).unwrap();
            list.remove(pos);
            if list.is_empty() {
                self.future.remove(&exp_time);
            }
            // year wrap bookkeeping
            let year = u128::from(self.cfg.t_ns) * self.cfg.n as u128;
            if exp_time / year != self.current / year {
                self.stats.year_wraps += 1;
            }
            self.current = exp_time;
        }
        self.last_fetch_time = exp_time;
        self.status[got] = Status::Fetched;
        self.pending -= 1;
        drop(value);
        if std::mem::size_of::<P>() == 0 {
            self.anon_expected += 1;
        }
        if P::REPORTS_DROP && payload::drop_count(got as u64) != 1 {
            return Err(self.fail("C15", "drop-count", format!("payload of fetched event {got} reported {} drops after the caller dropped it", payload::drop_count(got as u64))));
        }
        self.after_op(false)
    }

    /// After a failure of a sibling property's oracle (e.g. a broken list): the memory obligations of
    /// C15 can still be decided. Drops the queue (list walks bounded by hook, a crash of the process is
    /// attributed to this case by the orchestrator) and checks the drop registry.
    pub fn finish_after_failure(mut self) -> Option<Failure> {
        let q = self.q.take()?;
        verif::list_reset(Some(self.times.len() as u64 + 8));
        let res = vcommon::catch(move || drop(q));
        verif::list_reset(None);
        if let Err(msg) = res {
            return Some(self.fail("C15", "drop-panicked", format!("dropping the queue panicked: {msg}")));
        }
        if P::REPORTS_DROP {
            for tag in 0..self.status.len() {
                let c = payload::drop_count(tag as u64);
                if c != 1 {
                    return Some(self.fail(
                        "C15",
                        "drop-count",
                        format!("payload of event {tag} ({:?}) was dropped {c} times by the end of the history", self.status[tag]),
                    ));
                }
            }
        }
        if self.oracles.shadow {
            let mut sh = self.shadow.borrow_mut();
            if let Some((kind, detail)) = sh.error.take() {
                drop(sh);
                return Some(self.fail("C15", kind, detail));
            }
        }
        None
    }

    /// Drops the queue (with whatever is pending) and performs the final checks.
    pub fn finish(mut self) -> Result<Stats, Failure> {
        self.walk()?;
        let pending_tags: Vec<usize> = (0..self.status.len()).filter(|t| self.status[*t] == Status::Pending).collect();
        self.stats.dropped_pending = pending_tags.len() as u64;
        if std::mem::size_of::<P>() == 0 {
            self.anon_expected += pending_tags.len() as u64;
        }
        // unused handles are plain data
        self.handles.clear();
        let q = self.q.take().unwrap();
        verif::list_reset(Some(self.pending as u64 + 8));
        self.stats.dropped_unwinding = u64::from(self.drop_unwinding);
        let res = if self.drop_unwinding {
            // the queue is a local of a frame that is left by a panic
            struct Marker;
            let r = std::panic::catch_unwind(std::panic::AssertUnwindSafe(move || {
                let _q = q;
                std::panic::panic_any(Marker);
            }));
            match r {
                Err(p) if p.is::<Marker>() => Ok(()),
                Err(p) => Err(vcommon::panic_message(&p)),
                Ok(()) => Ok(()),
            }
        } else {
            vcommon::catch(move || drop(q))
        };
        verif::list_reset(None);
        if let Err(msg) = res {
            return Err(self.fail("C15", "drop-panicked", format!("dropping the queue panicked: {msg}")));
        }
        // exactly-once drop of every payload
        if P::REPORTS_DROP {
            for tag in 0..self.status.len() {
                let c = payload::drop_count(tag as u64);
                if c != 1 {
                    return Err(self.fail(
                        "C15",
                        "drop-count",
                        format!("payload of event {tag} ({:?}) was dropped {c} times by the end of the history", self.status[tag]),
                    ));
                }
            }
        }
        if std::mem::size_of::<P>() == 0 && payload::anon_drops() != self.anon_expected {
            return Err(self.fail("C15", "drop-count", format!("{} drops of zero-sized payloads, expected {}", payload::anon_drops(), self.anon_expected)));
        }
        if self.oracles.shadow {
            let mut sh = self.shadow.borrow_mut();
            if let Some((kind, detail)) = sh.error.take() {
                drop(sh);
                return Err(self.fail("C15", kind, detail));
            }
            if !sh.live.is_empty() {
                let d = format!("{} regions still live after the queue was dropped", sh.live.len());
                drop(sh);
                return Err(self.fail("C15", "leaked-region", d));
            }
            if !sh.pages.is_empty() {
                let d = format!("{} pages not released after the queue was dropped", sh.pages.len());
                drop(sh);
                return Err(self.fail("C15", "leaked-page", d));
            }
            self.stats.allocs = sh.allocs;
            self.stats.frees = sh.frees;
            self.stats.reuses = sh.reuses;
            self.stats.max_pages = sh.max_pages;
        }
        if let Some(prev) = self.prev_observer.take() {
            verif::set_alloc_observer(prev);
        }
        let stats = std::mem::replace(
            &mut self.stats,
            Stats {
                ops: 0,
                adds: 0,
                fetches: 0,
                cancels_pending: 0,
                cancels_fetched: 0,
                cancels_cancelled: 0,
                cancel_tie_current_in_bucket: 0,
                zero_adds: 0,
                ties_fetched: 0,
                past_adds: 0,
                year_wraps: 0,
                max_len: 0,
                walks: 0,
                scan_steps: 0,
                allocs: 0,
                frees: 0,
                reuses: 0,
                max_pages: 0,
                dropped_pending: 0,
                dropped_unwinding: 0,
                peeks: 0,
            },
        );
        Ok(stats)
    }
}

impl<P: Payload> Drop for Runner<P> {
    fn drop(&mut self) {
        // a failed history: never run the queue's destructor on a possibly corrupt structure
        if let Some(q) = self.q.take() {
            std::mem::forget(q);
        }
        if let Some(prev) = self.prev_observer.take() {
            verif::set_alloc_observer(prev);
        }
        verif::scan_reset(None);
        verif::list_reset(None);
    }
}
