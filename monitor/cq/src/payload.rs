//! Payload zoo for the calendar queue: types of different size / alignment, with and without
//! destructors. Every payload is filled with a byte pattern derived from its id over its whole
//! size, so a fetched value can be compared bit for bit, and payloads with a destructor report
//! their drop to a thread-local registry.

use std::cell::RefCell;

thread_local! {
    /// drop counts per id (ids are small and dense per history)
    static DROPS: RefCell<Vec<u16>> = const { RefCell::new(Vec::new()) };
    /// number of drops of payloads that cannot carry an id (ZST)
    static ANON_DROPS: RefCell<u64> = const { RefCell::new(0) };
    static PAST_DROPS: RefCell<Vec<u16>> = const { RefCell::new(Vec::new()) };
}

pub fn drops_reset() {
    DROPS.with(|d| d.borrow_mut().clear());
    PAST_DROPS.with(|d| d.borrow_mut().clear());
    ANON_DROPS.with(|d| *d.borrow_mut() = 0);
}

pub fn drop_count(id: u64) -> u16 {
    if id >= PAST_BASE {
        return PAST_DROPS.with(|d| d.borrow().get((id - PAST_BASE) as usize).copied().unwrap_or(0));
    }
    DROPS.with(|d| d.borrow().get(id as usize).copied().unwrap_or(0))
}

pub fn anon_drops() -> u64 {
    ANON_DROPS.with(|d| *d.borrow())
}

/// ids of payloads handed to rejected (past) adds live in their own small table
pub const PAST_BASE: u64 = 1 << 40;

fn record_drop(id: u64) {
    let (table, idx, cap) = if id >= PAST_BASE {
        (&PAST_DROPS, (id - PAST_BASE) as usize, 1_000_000usize)
    } else {
        (&DROPS, id as usize, 50_000_000usize)
    };
    table.with(|d| {
        let mut d = d.borrow_mut();
        if idx >= d.len() {
            // an id far outside the range means the payload bytes were corrupted; do not let a
            // corrupted id exhaust memory, the pattern check reports the corruption.
            if idx > cap {
                ANON_DROPS.with(|a| *a.borrow_mut() += 1_000_000_007);
                return;
            }
            d.resize(idx + 1, 0);
        }
        d[idx] = d[idx].saturating_add(1);
    });
}

pub fn pattern_byte(id: u64, i: usize) -> u8 {
    // cheap, position dependent, never constant over a region
    let x = id
        .wrapping_mul(0x9E37_79B9_7F4A_7C15)
        .wrapping_add((i as u64).wrapping_mul(0xD6E8_FEB8_6659_FD93));
    (x >> 29) as u8 ^ (i as u8)
}

pub trait Payload: Sized + 'static {
    const NAME: &'static str;
    /// the drop of a value is reported to the registry under its id
    const REPORTS_DROP: bool;
    /// the value contains its full id
    const CARRIES_ID: bool;
    fn make(id: u64) -> Self;
    /// bit-for-bit comparison with the pattern of `id`
    fn matches(&self, id: u64) -> bool;
    /// the id stored in the value (if CARRIES_ID)
    fn id(&self) -> Option<u64>;
}

// --- 1 byte, align 1, no destructor -----------------------------------------------------------
pub struct Tiny(u8);
impl Payload for Tiny {
    const NAME: &'static str = "u8";
    const REPORTS_DROP: bool = false;
    const CARRIES_ID: bool = false;
    fn make(id: u64) -> Self {
        Tiny(pattern_byte(id, 0))
    }
    fn matches(&self, id: u64) -> bool {
        self.0 == pattern_byte(id, 0)
    }
    fn id(&self) -> Option<u64> {
        None
    }
}

// --- 3 bytes, align 1 ---------------------------------------------------------------------------
pub struct Three([u8; 3]);
impl Payload for Three {
    const NAME: &'static str = "[u8;3]";
    const REPORTS_DROP: bool = false;
    const CARRIES_ID: bool = false;
    fn make(id: u64) -> Self {
        Three([pattern_byte(id, 0), pattern_byte(id, 1), pattern_byte(id, 2)])
    }
    fn matches(&self, id: u64) -> bool {
        (0..3).all(|i| self.0[i] == pattern_byte(id, i))
    }
    fn id(&self) -> Option<u64> {
        None
    }
}

// --- u64 -----------------------------------------------------------------------------------------
pub struct Word(u64);
impl Payload for Word {
    const NAME: &'static str = "u64";
    const REPORTS_DROP: bool = false;
    const CARRIES_ID: bool = true;
    fn make(id: u64) -> Self {
        Word(id ^ 0xA5A5_5A5A_A5A5_5A5A)
    }
    fn matches(&self, id: u64) -> bool {
        self.0 == id ^ 0xA5A5_5A5A_A5A5_5A5A
    }
    fn id(&self) -> Option<u64> {
        Some(self.0 ^ 0xA5A5_5A5A_A5A5_5A5A)
    }
}

// --- u128 (align 16) -----------------------------------------------------------------------------
pub struct Wide(u128);
impl Payload for Wide {
    const NAME: &'static str = "u128";
    const REPORTS_DROP: bool = false;
    const CARRIES_ID: bool = true;
    fn make(id: u64) -> Self {
        Wide((u128::from(id) << 64) | u128::from(!id))
    }
    fn matches(&self, id: u64) -> bool {
        self.0 == (u128::from(id) << 64) | u128::from(!id)
    }
    fn id(&self) -> Option<u64> {
        Some((self.0 >> 64) as u64)
    }
}

// --- (u8, u64): padding inside ---------------------------------------------------------------------
pub struct Pair(u8, u64);
impl Payload for Pair {
    const NAME: &'static str = "(u8,u64)";
    const REPORTS_DROP: bool = true;
    const CARRIES_ID: bool = true;
    fn make(id: u64) -> Self {
        Pair(pattern_byte(id, 7), id)
    }
    fn matches(&self, id: u64) -> bool {
        self.0 == pattern_byte(id, 7) && self.1 == id
    }
    fn id(&self) -> Option<u64> {
        Some(self.1)
    }
}
impl Drop for Pair {
    fn drop(&mut self) {
        record_drop(self.1);
    }
}

// --- 100 bytes, align 16, destructor -----------------------------------------------------------------
#[repr(align(16))]
pub struct Aligned16([u8; 100]);
impl Payload for Aligned16 {
    const NAME: &'static str = "align16[u8;100]";
    const REPORTS_DROP: bool = true;
    const CARRIES_ID: bool = true;
    fn make(id: u64) -> Self {
        let mut b = [0u8; 100];
        b[..8].copy_from_slice(&id.to_le_bytes());
        for (i, x) in b.iter_mut().enumerate().skip(8) {
            *x = pattern_byte(id, i);
        }
        Aligned16(b)
    }
    fn matches(&self, id: u64) -> bool {
        (&self.0 as *const _ as usize) % 16 == 0
            && self.0[..8] == id.to_le_bytes()
            && (8..100).all(|i| self.0[i] == pattern_byte(id, i))
    }
    fn id(&self) -> Option<u64> {
        Some(u64::from_le_bytes(self.0[..8].try_into().unwrap()))
    }
}
impl Drop for Aligned16 {
    fn drop(&mut self) {
        record_drop(u64::from_le_bytes(self.0[..8].try_into().unwrap()));
    }
}

// --- ~2 KiB, destructor ---------------------------------------------------------------------------------
pub struct Big([u8; 2000]);
impl Payload for Big {
    const NAME: &'static str = "[u8;2000]";
    const REPORTS_DROP: bool = true;
    const CARRIES_ID: bool = true;
    fn make(id: u64) -> Self {
        let mut b = [0u8; 2000];
        b[..8].copy_from_slice(&id.to_le_bytes());
        for (i, x) in b.iter_mut().enumerate().skip(8) {
            *x = pattern_byte(id, i);
        }
        Big(b)
    }
    fn matches(&self, id: u64) -> bool {
        self.0[..8] == id.to_le_bytes() && (8..2000).all(|i| self.0[i] == pattern_byte(id, i))
    }
    fn id(&self) -> Option<u64> {
        Some(u64::from_le_bytes(self.0[..8].try_into().unwrap()))
    }
}
impl Drop for Big {
    fn drop(&mut self) {
        record_drop(u64::from_le_bytes(self.0[..8].try_into().unwrap()));
    }
}

// --- heap owning, destructor -------------------------------------------------------------------------------
pub struct Owning {
    id: u64,
    text: String,
    list: Vec<u64>,
}
impl Payload for Owning {
    const NAME: &'static str = "owning{String,Vec}";
    const REPORTS_DROP: bool = true;
    const CARRIES_ID: bool = true;
    fn make(id: u64) -> Self {
        Owning {
            id,
            text: format!("payload-{id}"),
            list: (0..(id % 5)).map(|i| id.wrapping_mul(31).wrapping_add(i)).collect(),
        }
    }
    fn matches(&self, id: u64) -> bool {
        self.id == id
            && self.text == format!("payload-{id}")
            && self.list.len() as u64 == id % 5
            && self
                .list
                .iter()
                .enumerate()
                .all(|(i, v)| *v == id.wrapping_mul(31).wrapping_add(i as u64))
    }
    fn id(&self) -> Option<u64> {
        Some(self.id)
    }
}
impl Drop for Owning {
    fn drop(&mut self) {
        record_drop(self.id);
    }
}

// --- zero sized with destructor ----------------------------------------------------------------------------
pub struct Zst;
impl Payload for Zst {
    const NAME: &'static str = "zst";
    const REPORTS_DROP: bool = false; // only counted anonymously
    const CARRIES_ID: bool = false;
    fn make(_: u64) -> Self {
        Zst
    }
    fn matches(&self, _: u64) -> bool {
        true
    }
    fn id(&self) -> Option<u64> {
        None
    }
}
impl Drop for Zst {
    fn drop(&mut self) {
        ANON_DROPS.with(|a| *a.borrow_mut() += 1);
    }
}

/// The default payload of the C01 / C03 drivers: id + canary words, with destructor.
pub struct Ident {
    canary_a: u64,
    id: u64,
    canary_b: u64,
}
impl Payload for Ident {
    const NAME: &'static str = "ident";
    const REPORTS_DROP: bool = true;
    const CARRIES_ID: bool = true;
    fn make(id: u64) -> Self {
        Ident {
            canary_a: 0xDEAD_BEEF_0BAD_F00D ^ id,
            id,
            canary_b: 0x0123_4567_89AB_CDEF ^ id.rotate_left(13),
        }
    }
    fn matches(&self, id: u64) -> bool {
        self.id == id
            && self.canary_a == 0xDEAD_BEEF_0BAD_F00D ^ id
            && self.canary_b == 0x0123_4567_89AB_CDEF ^ id.rotate_left(13)
    }
    fn id(&self) -> Option<u64> {
        Some(self.id)
    }
}
impl Drop for Ident {
    fn drop(&mut self) {
        record_drop(self.id);
    }
}
