//! C13 — a panicking module is contained, attributed and does not disturb other modules.
//!
//! Fault enumeration: for a small deterministic multi-module model and a fault placement
//! (module x callback / occurrence / task step x stereotype) the real code is executed twice:
//! A with a panic at that point, B with "fall silent" at the same point. A must return, list exactly
//! the non-caught panicking modules, deactivate them, leave every other module's log equal to B's,
//! and leave the simulator's statics usable (checked by a follow-up simulation in the same process).

use des::net::module::Stereotyp;
use des::net::PanicError;
use des::prelude::*;
use des::time::sleep;
use serde::{Deserialize, Serialize};
use serde_json::{json, Value};
use std::cell::RefCell;
use std::collections::BTreeSet;
use std::sync::atomic::{AtomicBool, Ordering};
use std::sync::Arc;
use vcommon::{Args, Hasher64, Report, Rng};

const K_TIMER: u16 = 51;
const K_TOKEN: u16 = 52;
const K_FORWARD: u16 = 53;
const MS: u64 = 1_000_000;

#[derive(Debug, Clone, Copy, Serialize, Deserialize, PartialEq, Eq, PartialOrd, Ord)]
pub enum Site {
    Start(usize),
    /// the k-th handle_message call of the module (counting from 0)
    Handle(usize),
    End,
    /// step j of the module's joined task
    Task(usize),
    /// start-up stage of the module's restart (second occurrence of at_sim_start)
    Restart(usize),
}

#[derive(Debug, Clone, Copy, Serialize, Deserialize, PartialEq)]
pub struct Fault {
    pub module: usize,
    pub site: Site,
    /// stereotype with on_panic_catch = true
    pub catching: bool,
    /// the handler sends its messages before the fault (events are already buffered when it panics)
    pub after_send: bool,
    /// the panic is not a plain panic!() but the documented one of sending on a gate that is not an endpoint
    /// (it is raised inside the simulator's own code)
    #[serde(default)]
    pub via_send: bool,
    /// task faults: the task's handle is registered with try_join (joined if finished) instead of join
    #[serde(default)]
    pub try_join: bool,
    /// right before the fault the callback spawns a task that would send a token to a neighbour when polled: a module
    /// that panicked polls nothing any more (and one that falls silent there does not send either)
    #[serde(default)]
    pub after_spawn: bool,
}

#[derive(Debug, Clone, Serialize, Deserialize, PartialEq)]
pub struct Model {
    pub n: usize,
    pub star: bool,
    pub stages: Vec<usize>,
    /// per module: instants of its own timers (each sends a token to its neighbour(s))
    pub timers: Vec<Vec<u64>>,
    pub ttl: u16,
    /// per module: number of steps of its task (0 = no task), step length
    pub task_steps: Vec<usize>,
    pub task_period: u64,
    /// per module: after its k-th handled message (counting from 0) it requests shutdown-and-restart (missing = never)
    #[serde(default)]
    pub restart_on: Vec<Option<usize>>,
    /// per module: before its task, the module registers (try_join) a service task that is still running at the end
    #[serde(default)]
    pub service_first: Vec<bool>,
}

#[derive(Debug, Clone, Serialize, Deserialize, PartialEq)]
pub struct Case {
    pub model: Model,
    pub faults: Vec<Fault>,
}

#[derive(Debug, Clone, Copy, PartialEq, Eq, Serialize, Deserialize)]
pub enum Kind {
    Start(usize),
    Timer,
    Token(u16),
    TaskStep(usize),
    End,
    /// the observer's view at tear-down: module `a` is active
    Active(bool),
}

#[derive(Debug, Clone, Copy, PartialEq, Eq, Serialize, Deserialize)]
pub struct Entry {
    pub module: usize,
    pub kind: Kind,
    pub a: u64,
    pub t: u64,
}

thread_local! {
    static LOG: RefCell<Vec<Entry>> = const { RefCell::new(Vec::new()) };
    /// (module, site) of the faults that were actually reached in this execution
    static FIRED: RefCell<Vec<(usize, Site)>> = const { RefCell::new(Vec::new()) };
}

fn fired(module: usize, site: Site) {
    FIRED.with(|f| f.borrow_mut().push((module, site)));
}

fn now_ns() -> u64 {
    SimTime::now().as_nanos() as u64
}

fn log(module: usize, kind: Kind, a: u64) {
    // the instant of tear-down is the time of the last event of the whole simulation; it legitimately differs
    // between a module that panicked and one that fell silent (the latter still has timers pending)
    let t = if matches!(kind, Kind::End | Kind::Active(_)) { 0 } else { now_ns() };
    LOG.with(|l| l.borrow_mut().push(Entry { module, kind, a, t }));
}

/// true: inject panics (execution A); false: fall silent at the same points (execution B)
#[derive(Clone, Copy, PartialEq)]
pub enum Mode {
    Panic,
    Silent,
    Baseline,
}

struct Node {
    idx: usize,
    model: Model,
    faults: Vec<Fault>,
    mode: Mode,
    handled: usize,
    silent: Arc<AtomicBool>,
    incarnation: u32,
}

impl Node {
    fn fault_at(&self, site: Site) -> Option<Fault> {
        if self.mode == Mode::Baseline {
            return None;
        }
        self.faults.iter().copied().find(|f| f.module == self.idx && f.site == site)
    }

    /// returns true if the callback must stop here (execution B)
    fn inject(&self, site: Site) -> bool {
        if let Some(_f) = self.fault_at(site) {
            fired(self.idx, site);
            if _f.after_spawn {
                let (silent, idx, gate) = (self.silent.clone(), self.idx, self.neighbours()[0].clone());
                tokio::spawn(async move {
                    if silent.load(Ordering::SeqCst) {
                        std::future::pending::<()>().await;
                    }
                    send(Message::default().kind(K_TOKEN).id(0).src([idx as u8; 6]), gate.as_str());
                });
            }
            match self.mode {
                Mode::Panic if _f.via_send => {
                    send(Message::default().kind(K_TOKEN), "via");
                    panic!("sending on the transit gate of m{} did not panic", self.idx)
                }
                Mode::Panic => panic!("injected fault at {site:?} in module m{}", self.idx),
                Mode::Silent => {
                    self.silent.store(true, Ordering::SeqCst);
                    return true;
                }
                Mode::Baseline => {}
            }
        }
        false
    }

    fn neighbours(&self) -> Vec<String> {
        if self.model.star {
            if self.idx == 0 {
                (1..self.model.n).map(|i| format!("to{i}")).collect()
            } else {
                vec!["to0".to_string()]
            }
        } else {
            vec!["out".to_string()]
        }
    }
}

impl Module for Node {
    fn num_sim_start_stages(&self) -> usize {
        self.model.stages[self.idx]
    }

    fn reset(&mut self) {
        self.incarnation += 1;
    }

    fn at_sim_start(&mut self, stage: usize) {
        if self.silent.load(Ordering::SeqCst) {
            return;
        }
        if stage == 0 {
            if self.faults.iter().any(|f| f.module == self.idx && f.catching) && self.mode != Mode::Baseline {
                current().set_stereotyp(Stereotyp { on_panic_catch: true, ..Stereotyp::HOST });
            }
        }
        // after a fault in an earlier stage the module must be quiet: later stages only log for the module itself
        log(self.idx, Kind::Start(stage), 0);
        if stage == 0 {
            for (i, t) in self.model.timers[self.idx].iter().enumerate() {
                // (a restarted module only re-arms the timers that are still ahead)
                if *t > now_ns() || self.incarnation == 0 {
                    schedule_at(Message::default().kind(K_TIMER).id(i as u16), SimTime::from_duration(Duration::from_nanos(*t)));
                }
            }
            let steps = self.model.task_steps[self.idx];
            if steps > 0 {
                let (idx, period, silent, mode, inc) = (self.idx, self.model.task_period, self.silent.clone(), self.mode, self.incarnation);
                // (only the task of the first incarnation is faulty: after a restart the panic of the old task must still
                // be reported although the module - and its new task - run on)
                let task_fault = self.faults.iter().copied().find(|f| f.module == idx && matches!(f.site, Site::Task(_))).filter(|_| self.incarnation == 0);
                if self.model.service_first.get(idx).copied().unwrap_or(false) {
                    // like an accept loop: registered first, never finishes
                    current().try_join(tokio::spawn(std::future::pending::<()>()));
                }
                let h = tokio::spawn(async move {
                    for j in 0..steps {
                        sleep(Duration::from_nanos(period)).await;
                        if silent.load(Ordering::SeqCst) {
                            std::future::pending::<()>().await;
                        }
                        if let Some(f) = task_fault {
                            if f.site == Site::Task(j) {
                                fired(idx, f.site);
                                match mode {
                                    Mode::Panic => panic!("injected fault in the task of m{idx} at step {j}"),
                                    Mode::Silent => std::future::pending::<()>().await,
                                    Mode::Baseline => {}
                                }
                            }
                        }
                        log(idx, Kind::TaskStep(j), u64::from(inc));
                    }
                });
                // a task fault is only combined with the non-catching stereotype and a must-join handle;
                // otherwise the handle is joined if finished (a deactivated module never finishes its task)
                // (a module that restarts registers with try_join: the must-join handle of a task that the restart
                // cancelled would be reported as an error of its own, which is not a panic)
                let restarts = self.model.restart_on.get(idx).copied().flatten().is_some();
                if task_fault.is_some_and(|f| !f.try_join) && !restarts {
                    current().join(h);
                } else {
                    current().try_join(h);
                }
            }
        }
        let site = if self.incarnation == 0 { Site::Start(stage) } else { Site::Restart(stage) };
        if self.inject(site) {}
    }

    fn handle_message(&mut self, msg: Message) {
        if self.silent.load(Ordering::SeqCst) {
            return;
        }
        let k = self.handled;
        self.handled += 1;
        let fault = self.fault_at(Site::Handle(k));
        if fault.is_some_and(|f| !f.after_send) && self.inject(Site::Handle(k)) {
            return;
        }
        let h = msg.header();
        match h.kind {
            K_TIMER => {
                log(self.idx, Kind::Timer, u64::from(h.id));
                for g in self.neighbours() {
                    send(Message::default().kind(K_TOKEN).id(self.model.ttl).src([self.idx as u8; 6]), g.as_str());
                }
            }
            K_TOKEN => {
                log(self.idx, Kind::Token(h.id), u64::from(h.src[0]));
                if h.id > 0 {
                    // forward with a decremented hop budget after a processing delay. The delay is a self message
                    // (a delayed send_in would leave the gate of a module that may be dead by then; whether that
                    // message still counts as sent is not something the statement decides)
                    schedule_in(Message::default().kind(K_FORWARD).id(h.id - 1).src(h.src), Duration::from_nanos(MS));
                }
            }
            K_FORWARD => {
                log(self.idx, Kind::Timer, 1000 + u64::from(h.id));
                let g = self.neighbours();
                let gate = &g[(h.id as usize) % g.len()];
                send(Message::default().kind(K_TOKEN).id(h.id).src(h.src), gate.as_str());
            }
            _ => {}
        }
        if fault.is_some_and(|f| f.after_send) && self.inject(Site::Handle(k)) {
            return;
        }
        if self.incarnation == 0 && self.model.restart_on.get(self.idx).copied().flatten() == Some(k) {
            current().shutdow_and_restart_in(Duration::from_nanos(2 * MS + 250_000));
        }
    }

    fn at_sim_end(&mut self) -> Result<(), RuntimeError> {
        if self.silent.load(Ordering::SeqCst) {
            return Ok(());
        }
        log(self.idx, Kind::End, 0);
        if self.inject(Site::End) {}
        Ok(())
    }
}

/// created last: its tear-down runs after the others' and records which modules are active
struct Observer {
    n: usize,
}
impl Module for Observer {
    fn at_sim_end(&mut self) -> Result<(), RuntimeError> {
        for i in 0..self.n {
            let path: ObjectPath = format!("m{i}").into();
            if let Some(m) = des::net::globals().get(&path) {
                log(usize::MAX, Kind::Active(m.is_active()), i as u64);
                // the gates of every module stay usable (a query of a gate whose lock was poisoned would panic here)
                if let Some(g) = m.gate("via", 0) {
                    let _ = g.kind();
                    let _ = g.next_gate();
                }
            }
        }
        Ok(())
    }
}

pub struct Run {
    pub fired: Vec<(usize, Site)>,
    pub log: Vec<Entry>,
    /// Ok / Err(paths in the error) / panicked out of run()
    pub outcome: Result<Result<(), Vec<String>>, String>,
    pub statics_after: (bool, usize, bool),
}

pub fn execute(case: &Case, mode: Mode) -> Run {
    LOG.with(|l| l.borrow_mut().clear());
    FIRED.with(|f| f.borrow_mut().clear());
    let model = &case.model;
    let res = vcommon::catch(|| {
        let mut sim = Sim::new(());
        for i in 0..model.n {
            sim.node(
                format!("m{i}"),
                Node { idx: i, model: model.clone(), faults: case.faults.clone(), mode, handled: 0, silent: Arc::new(AtomicBool::new(false)), incarnation: 0 },
            );
        }
        sim.node("zz-observer", Observer { n: model.n });
        // an unused chain through a transit gate on every module: va - via - vb
        for i in 0..model.n {
            let path = format!("m{i}");
            let va = sim.gate(path.as_str(), "va");
            let via = sim.gate(path.as_str(), "via");
            let vb = sim.gate(path.as_str(), "vb");
            va.connect(via.clone(), None);
            via.connect(vb, None);
        }
        if model.star {
            for i in 1..model.n {
                let a = sim.gate("m0", &format!("to{i}"));
                let b = sim.gate(format!("m{i}").as_str(), "to0");
                a.connect(b, None);
            }
        } else {
            for i in 0..model.n {
                let a = sim.gate(format!("m{i}").as_str(), "out");
                let b = sim.gate(format!("m{}", (i + 1) % model.n).as_str(), "in");
                a.connect(b, None);
            }
        }
        let rt = Builder::seeded(9).quiet().max_itr(200_000).build(sim.freeze());
        match rt.run() {
            Ok(_) => Ok(()),
            Err(e) => {
                let mut paths = Vec::new();
                for entry in e.iter() {
                    if let Some(p) = entry.as_any().downcast_ref::<PanicError>() {
                        paths.push(p.path.as_str().to_string());
                    } else if let Some(j) = entry.as_any().downcast_ref::<JoinError>() {
                        paths.push(j.path.as_str().to_string());
                    } else {
                        paths.push(format!("<other: {entry}>"));
                    }
                }
                Err(paths)
            }
        }
    });
    let log = LOG.with(|l| std::mem::take(&mut *l.borrow_mut()));
    let fired = FIRED.with(|f| std::mem::take(&mut *f.borrow_mut()));
    Run { fired, log, outcome: res, statics_after: des::verif::statics() }
}

/// a fixed little simulation; its trace must be the same before and after any faulty run
pub fn followup_trace() -> Vec<Entry> {
    let case = Case {
        model: Model { n: 3, star: false, stages: vec![1, 2, 1], timers: vec![vec![MS, 5 * MS], vec![2 * MS], vec![]], ttl: 4, task_steps: vec![2, 0, 1], task_period: 3 * MS, restart_on: Vec::new(), service_first: Vec::new() },
        faults: Vec::new(),
    };
    execute(&case, Mode::Baseline).log
}

pub type Finding = (&'static str, String);

pub fn check(case: &Case, a: &Run, b: &Run, reference_followup: &[Entry]) -> Vec<Finding> {
    let mut f = Vec::new();
    let n = case.model.n;
    let paths = match &a.outcome {
        Err(p) => {
            f.push(("unwound", format!("run() did not return, the panic escaped: {p}")));
            return f;
        }
        Ok(r) => r.clone(),
    };
    // only faults that were actually reached count (a second fault may become unreachable through the first)
    let reached: Vec<Fault> = case.faults.iter().copied().filter(|x| a.fired.contains(&(x.module, x.site))).collect();
    let case = &Case { model: case.model.clone(), faults: reached };
    // error set
    let want: BTreeSet<String> = case.faults.iter().filter(|x| !x.catching).map(|x| format!("m{}", x.module)).collect();
    let got: BTreeSet<String> = paths.clone().err().unwrap_or_default().into_iter().collect();
    if got != want {
        f.push((
            "error-set",
            format!("run() reported {:?}, the modules with a non-caught panic are {:?} (faults {:?})", paths, want, case.faults),
        ));
    }
    // other modules: exactly what they see when the faulty module merely falls silent
    let faulty_callback: BTreeSet<usize> = case.faults.iter().filter(|x| !matches!(x.site, Site::Task(_))).map(|x| x.module).collect();
    let faulty_any: BTreeSet<usize> = case.faults.iter().map(|x| x.module).collect();
    for m in 0..n {
        if faulty_any.contains(&m) {
            continue;
        }
        let la: Vec<&Entry> = a.log.iter().filter(|e| e.module == m).collect();
        let lb: Vec<&Entry> = b.log.iter().filter(|e| e.module == m).collect();
        if la != lb {
            let p = la.iter().zip(&lb).position(|(x, y)| x != y).unwrap_or(la.len().min(lb.len()));
            f.push((
                "others-disturbed",
                format!(
                    "module m{m} is not faulty but its history differs from the run in which the faulty module falls silent: entry {p}: with panic {:?}, silent {:?} ({} vs {} entries; faults {:?})",
                    la.get(p), lb.get(p), la.len(), lb.len(), case.faults
                ),
            ));
            break;
        }
    }
    // the faulty module: no handler / task activity after the fault, inactive at the end
    for fault in &case.faults {
        let m = fault.module;
        match fault.site {
            Site::Task(j) => {
                // the task is gone; the module itself keeps running and must behave as in B
                if a.log.iter().any(|e| e.module == m && e.a == 0 && matches!(e.kind, Kind::TaskStep(s) if s >= j)) {
                    f.push(("ran-after-fault", format!("the task of m{m} logged step >= {j} after panicking there")));
                }
                let la: Vec<&Entry> = a.log.iter().filter(|e| e.module == m).collect();
                let lb: Vec<&Entry> = b.log.iter().filter(|e| e.module == m).collect();
                if la != lb && case.faults.len() == 1 {
                    f.push(("others-disturbed", format!("m{m} (only its task panicked): its own history differs from the silent-task run ({} vs {} entries)", la.len(), lb.len())));
                }
            }
            Site::End => {}
            site => {
                // position of the fault in A's log of this module: everything the module logs afterwards is suspicious
                // Tear-down calls at_sim_end on every module, also on a deactivated one, and that polls its tasks once
                // more. The statement speaks about messages and wake-ups during the run; what a dead module's task
                // does inside tear-down is not judged (it is counted as information by the caller).
                let teardown_a = a.log.iter().position(|e| matches!(e.kind, Kind::End | Kind::Active(_))).unwrap_or(a.log.len());
                let teardown_b = b.log.iter().position(|e| matches!(e.kind, Kind::End | Kind::Active(_))).unwrap_or(b.log.len());
                let lb_len = b.log[..teardown_b].iter().filter(|e| e.module == m && matches!(e.kind, Kind::Timer | Kind::Token(_) | Kind::TaskStep(_))).count();
                let la_len = a.log[..teardown_a].iter().filter(|e| e.module == m && matches!(e.kind, Kind::Timer | Kind::Token(_) | Kind::TaskStep(_))).count();
                if la_len > lb_len {
                    f.push((
                        "ran-after-fault",
                        format!("m{m} panicked at {site:?} but handled {} messages / task steps, the silent module handles {}", la_len, lb_len),
                    ));
                }
                let active = a.log.iter().find(|e| e.module == usize::MAX && e.a == m as u64).map(|e| e.kind);
                if active != Some(Kind::Active(false)) {
                    f.push(("still-active", format!("m{m} panicked at {site:?} but is reported as {active:?} at tear-down")));
                }
            }
        }
    }
    let _ = faulty_callback;
    // statics
    if a.statics_after != (false, 0, false) {
        f.push((
            "statics-dirty",
            format!("after the faulty simulation was dropped: module context placed = {}, buffered events = {}, globals attached = {}", a.statics_after.0, a.statics_after.1, a.statics_after.2),
        ));
    }
    // follow-up simulation in the same process
    let after = vcommon::catch(followup_trace);
    match after {
        Err(p) => f.push(("followup-failed", format!("a simulation after the faulty one panicked: {p}"))),
        Ok(t) => {
            if t != reference_followup {
                f.push(("followup-differs", format!("a simulation after the faulty one produced a different trace ({} vs {} entries)", t.len(), reference_followup.len())));
            }
        }
    }
    f
}

pub fn gen_model(rng: &mut Rng) -> Model {
    let n = 3 + rng.usize_below(3);
    Model {
        n,
        star: rng.chance(1, 2),
        stages: (0..n).map(|_| 1 + rng.usize_below(2)).collect(),
        timers: (0..n).map(|_| (0..rng.usize_below(4)).map(|_| (1 + rng.below(40)) * MS).collect()).collect(),
        ttl: 1 + rng.below(6) as u16,
        task_steps: (0..n).map(|_| if rng.chance(1, 2) { 1 + rng.usize_below(5) } else { 0 }).collect(),
        task_period: (2 + rng.below(9)) * MS + 500_000,
        restart_on: (0..n).map(|_| if rng.chance(1, 4) { Some(rng.usize_below(4)) } else { None }).collect(),
        service_first: (0..n).map(|_| rng.chance(1, 2)).collect(),
    }
}

/// all single placements for a model, derived from a baseline execution
pub fn placements(model: &Model, baseline: &[Entry]) -> Vec<Fault> {
    let mut v = Vec::new();
    for m in 0..model.n {
        let handled = baseline.iter().filter(|e| e.module == m && matches!(e.kind, Kind::Timer | Kind::Token(_))).count();
        let mut sites: Vec<Site> = (0..model.stages[m]).map(Site::Start).collect();
        sites.extend((0..handled).map(Site::Handle));
        sites.push(Site::End);
        // the module restarted in the baseline: its start-up stages ran a second time
        let starts = baseline.iter().filter(|e| e.module == m && e.kind == Kind::Start(0)).count();
        if starts >= 2 {
            sites.extend((0..model.stages[m]).map(Site::Restart));
        }
        for site in sites {
            for catching in [false, true] {
                for after_send in [false, true] {
                    if after_send && !matches!(site, Site::Handle(_)) {
                        continue;
                    }
                    v.push(Fault { module: m, site, catching, after_send, via_send: false, try_join: false, after_spawn: false });
                    if !after_send && matches!(site, Site::Handle(k) if k % 2 == 0) {
                        v.push(Fault { module: m, site, catching, after_send, via_send: false, try_join: false, after_spawn: true });
                    }
                    if !after_send && !catching && matches!(site, Site::Handle(k) if k % 3 == 0) {
                        v.push(Fault { module: m, site, catching, after_send, via_send: true, try_join: false, after_spawn: false });
                    }
                }
            }
        }
        for j in 0..model.task_steps[m] {
            v.push(Fault { module: m, site: Site::Task(j), catching: false, after_send: false, via_send: false, try_join: false, after_spawn: false });
            v.push(Fault { module: m, site: Site::Task(j), catching: false, after_send: false, via_send: false, try_join: true, after_spawn: false });
        }
    }
    v
}

fn case_hash(c: &Case) -> u64 {
    let mut h = Hasher64::new();
    h.str(&serde_json::to_string(c).unwrap());
    h.finish()
}

pub fn case_json(case: &Case) -> Value {
    json!({"driver": "desmon", "sub": "c13", "case": serde_json::to_value(case).unwrap()})
}

pub fn cmd(args: &Args) -> Report {
    let mut rep = Report::new("C13");
    let mut rng = Rng::new(args.stream_seed("c13"));
    let models = args.cases(1_000, 16_000);
    let reference_followup = followup_trace();
    let mut stop = false;
    for i in 0..models {
        let model = gen_model(&mut rng);
        let baseline = execute(&Case { model: model.clone(), faults: Vec::new() }, Mode::Baseline);
        if baseline.outcome != Ok(Ok(())) {
            rep.violation("C13/baseline", &format!("the fault-free model failed: {:?}", baseline.outcome), case_json(&Case { model: model.clone(), faults: vec![] }));
            continue;
        }
        let singles = placements(&model, &baseline.log);
        rep.count("models", 1);
        rep.count("single_placements_enumerated", singles.len() as u64);
        let mut cases: Vec<Case> = singles.iter().map(|f| Case { model: model.clone(), faults: vec![*f] }).collect();
        // pairs of simultaneous faults in two different modules (all pairs for tiny models, a sample otherwise)
        let mut pairs = Vec::new();
        for (x, fa) in singles.iter().enumerate() {
            for fb in &singles[x + 1..] {
                if fa.module != fb.module {
                    pairs.push((*fa, *fb));
                }
            }
        }
        if pairs.len() > 60 {
            rng.shuffle(&mut pairs);
            pairs.truncate(60);
        } else {
            rep.count("models_with_all_fault_pairs", 1);
        }
        cases.extend(pairs.into_iter().map(|(a, b)| Case { model: model.clone(), faults: vec![a, b] }));
        // two faults in one module: its must-join task panics, later a callback of the same module panics under the
        // catching stereotype (the module is inactive at the end of the run; the task's panic must still be reported)
        let mut same: Vec<(Fault, Fault)> = Vec::new();
        for fa in singles.iter().filter(|x| matches!(x.site, Site::Task(_)) && !x.try_join) {
            if model.restart_on.get(fa.module).copied().flatten().is_some() {
                continue;
            }
            // the task's step must come first (a module deactivated by the caught panic never finishes a must-join task,
            // which is an error of its own): position of the step and of the k-th handled message in the fault-free run
            let Site::Task(j) = fa.site else { continue };
            let Some(step_at) = baseline.log.iter().position(|e| e.module == fa.module && e.kind == Kind::TaskStep(j)) else { continue };
            for fb in singles.iter().filter(|x| x.module == fa.module && matches!(x.site, Site::Handle(_)) && x.catching && !x.via_send && !x.after_spawn) {
                let Site::Handle(k) = fb.site else { continue };
                let handled_at = baseline.log.iter().enumerate().filter(|(_, e)| e.module == fa.module && matches!(e.kind, Kind::Timer | Kind::Token(_))).map(|(i, _)| i).nth(k);
                if handled_at.is_some_and(|h| h > step_at) {
                    same.push((*fa, *fb));
                }
            }
        }
        if same.len() > 8 {
            rng.shuffle(&mut same);
            same.truncate(8);
        }
        rep.count("task_fault_then_caught_callback_fault_in_one_module", same.len() as u64);
        cases.extend(same.into_iter().map(|(a, b)| Case { model: model.clone(), faults: vec![a, b] }));
        for case in cases {
            vcommon::mark_case(&format!("c13:{}:{}:{}:{}", args.seed, args.shard, i, serde_json::to_string(&case.faults).unwrap_or_default()));
            let a = execute(&case, Mode::Panic);
            let b = execute(&case, Mode::Silent);
            let findings = check(&case, &a, &b, &reference_followup);
            rep.eval();
            rep.count("fault_placements_executed", 1);
            rep.count("followup_simulations", 1);
            for fl in &case.faults {
                let key = match fl.site {
                    Site::Start(_) => "faults_at_sim_start",
                    Site::Restart(_) => "faults_in_a_start_stage_of_a_restart",
                    Site::Handle(_) => {
                        if fl.after_send {
                            "faults_in_handle_message_after_sending"
                        } else {
                            "faults_in_handle_message"
                        }
                    }
                    Site::End => "faults_at_sim_end",
                    Site::Task(_) => "faults_in_joined_task",
                };
                rep.count(key, 1);
                if fl.catching {
                    rep.count("faults_with_catching_stereotype", 1);
                }
                if fl.after_spawn {
                    rep.count("faults_right_after_spawning_a_task_that_would_send", 1);
                }
                if fl.try_join {
                    rep.count("faults_in_try_joined_task", 1);
                    if case.model.service_first.get(fl.module).copied().unwrap_or(false) {
                        rep.count("faults_in_try_joined_task_registered_after_a_running_one", 1);
                    }
                }
                if fl.via_send {
                    rep.count("faults_raised_inside_the_simulator_by_sending_on_a_transit_gate", 1);
                }
            }
            if case.faults.len() > 1 {
                rep.count("double_fault_placements", 1);
            }
            if findings.is_empty() {
                rep.nontrivial(case_hash(&case));
                if rep.wants_sample() && case.faults.len() == 2 {
                    rep.sample(json!({"case": serde_json::to_value(&case).unwrap(), "entries_with_panic": a.log.len(), "entries_silent": b.log.len(), "run_result": format!("{:?}", a.outcome)}));
                }
            }
            for (kind, detail) in findings.into_iter().take(2) {
                if !rep.violation(&format!("C13/{kind}"), &detail, case_json(&case)) {
                    stop = true;
                }
            }
            if stop {
                break;
            }
        }
        if stop {
            break;
        }
    }
    rep
}

pub fn replay(v: &Value) -> i32 {
    let case: Case = serde_json::from_value(v.get("case").expect("case").clone()).expect("case");
    println!("case: {}", serde_json::to_string_pretty(&case).unwrap());
    let reference = followup_trace();
    let a = execute(&case, Mode::Panic);
    let b = execute(&case, Mode::Silent);
    println!("with panic: outcome {:?}, {} entries; silent: {} entries", a.outcome, a.log.len(), b.log.len());
    let f = check(&case, &a, &b, &reference);
    if f.is_empty() {
        println!("no violation");
        0
    } else {
        for (k, d) in f {
            println!("VIOLATION reproduced: C13/{k}: {d}");
        }
        1
    }
}
