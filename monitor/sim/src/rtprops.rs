//! Monitors on the generic runtime: C02 (clock), C03 at runtime level (tie order),
//! C10 (stepping) and C11 (limits). All use the event programs of `evprog`.

use crate::evprog::*;
use serde_json::{json, Value};
use std::collections::HashSet;
use vcommon::{Args, Hasher64, Report, Rng};

/// One finding of an oracle: (property, kind, detail)
pub type Finding = (&'static str, &'static str, String);

fn prog_hash(p: &Program, extra: u64) -> u64 {
    let mut h = Hasher64::new();
    h.u64(p.start_ns).u64(p.n as u64).u64(p.t_ns).u64(extra);
    for r in &p.roots {
        h.u64(r.time_ns).u64(r.id as u64).u64(u64::from(r.at_start));
    }
    for n in &p.nodes {
        h.u64(n.children.len() as u64);
        for c in &n.children {
            h.u64(c.delay_ns).u64(c.id as u64);
        }
    }
    h.finish()
}

fn case_json(sub: &str, prog: &Program, mode: Value) -> Value {
    json!({
        "driver": "desmon",
        "sub": sub,
        "features": if cfg!(feature = "cq") { Value::Null } else { json!("heap") },
        "program": serde_json::to_value(prog).unwrap(),
        "mode": mode,
    })
}

fn problem_kind(kind: &str) -> (&'static str, &'static str) {
    match kind {
        "add-rejected" => ("C02", "add-rejected"),
        "past-add-accepted" => ("C02", "past-add-accepted"),
        "past-event-dispatched" => ("C02", "past-event-dispatched"),
        "sim-time-mismatch" => ("C02", "sim-time-mismatch"),
        "event-set-structure" => ("C01", "structure"),
        "ext-add-rejected" => ("C10", "ext-add-rejected"),
        _ => ("C02", "other"),
    }
}

/// Oracle of C02 over one completed (uninterrupted or stepped) execution.
pub fn check_c02(prog: &Program, out: &Outcome, expect_all: bool) -> Vec<Finding> {
    let mut f: Vec<Finding> = Vec::new();
    if let Some(p) = &out.panicked {
        f.push(("C02", "run-panicked", format!("the run unwound with: {p}")));
        return f;
    }
    if out.err {
        f.push(("C02", "run-error", "run() returned an error for a program without failing parts".into()));
        return f;
    }
    if out.now_after_build_ns != prog.start_ns {
        f.push(("C02", "start-time", format!("SimTime::now() after build = {} ns, start time = {} ns", out.now_after_build_ns, prog.start_ns)));
    }
    if out.pre_run_past_rejected == Some(false) {
        f.push(("C02", "past-add-accepted", format!("add_event({} ns) before the run was accepted although the start time is {} ns", prog.start_ns - 1, prog.start_ns)));
    }
    for p in &out.problems {
        let (prop, kind) = problem_kind(&p.kind);
        f.push((prop, kind, p.detail.clone()));
    }
    let mut seen = HashSet::new();
    let mut last = prog.start_ns;
    for (i, r) in out.log.iter().enumerate() {
        if r.now_ns != r.sched_ns {
            f.push(("C02", "now-differs", format!("event {} scheduled for {} ns observed SimTime::now() = {} ns", r.id, r.sched_ns, r.now_ns)));
            break;
        }
        if r.now_ns < last {
            f.push(("C02", "clock-decreased", format!("event #{i} (id {}) handled at {} ns after an event at {} ns", r.id, r.now_ns, last)));
            break;
        }
        last = r.now_ns;
        if !seen.insert(r.id) {
            f.push(("C02", "handled-twice", format!("event {} was handled twice", r.id)));
            break;
        }
    }
    if expect_all {
        if out.log.len() != prog.nodes.len() && f.is_empty() {
            let missing: Vec<usize> = (0..prog.nodes.len()).filter(|i| !seen.contains(i)).take(5).collect();
            f.push(("C02", "not-handled", format!("{} of {} scheduled events were handled; missing e.g. {:?}", out.log.len(), prog.nodes.len(), missing)));
        }
        let expected_end = out.log.last().map_or(prog.start_ns, |r| r.now_ns);
        if out.end_time_ns != Some(expected_end) {
            f.push(("C02", "end-time", format!("run ended at {:?} ns, last handled event at {expected_end} ns", out.end_time_ns)));
        }
        if out.event_count != Some(out.log.len()) {
            f.push(("C11", "event-count", format!("profiler.event_count = {:?}, handled {}", out.event_count, out.log.len())));
        }
        if !out.remaining.is_empty() || out.remaining_ghosts > 0 {
            f.push(("C11", "remaining-nonempty", format!("{} remaining events after a complete run", out.remaining.len() + out.remaining_ghosts)));
        }
    }
    if let Some((prev, new)) = out.clock.backwards.first() {
        f.push(("C02", "clock-write-backwards", format!("the clock was written from {prev} ns back to {new} ns")));
    }
    if (out.clock.writes as usize) < out.log.len() {
        f.push(("C02", "clock-not-written", format!("{} clock writes for {} handled events", out.clock.writes, out.log.len())));
    }
    f
}

/// exact order oracle (C03) against the sequential model
pub fn check_order(prog: &Program, out: &Outcome) -> Vec<Finding> {
    let model = model_trace(prog);
    let real: Vec<usize> = out.log.iter().map(|r| r.id).collect();
    let exp: Vec<usize> = model.iter().map(|r| r.id).collect();
    if real != exp {
        let pos = real.iter().zip(&exp).position(|(a, b)| a != b).unwrap_or(real.len().min(exp.len()));
        let at = exp.get(pos).map(|_| model[pos].sched_ns).or_else(|| real.get(pos).map(|_| out.log[pos].now_ns)).unwrap_or(0);
        return vec![(
            "C03",
            "tie-order-runtime",
            format!(
                "dispatch #{pos} at {at} ns: expected event {:?} by the scheduling-order rule, observed {:?}",
                exp.get(pos),
                real.get(pos)
            ),
        )];
    }
    Vec::new()
}

fn tie_groups(trace: &[Rec]) -> usize {
    let mut groups = 0;
    let mut i = 0;
    while i < trace.len() {
        let mut j = i + 1;
        while j < trace.len() && trace[j].now_ns == trace[i].now_ns {
            j += 1;
        }
        if j - i > 1 {
            groups += 1;
        }
        i = j;
    }
    groups
}

/// Reports findings; those of `own` as violations, others as foreign information.
fn report(rep: &mut Report, own: &str, findings: Vec<Finding>, case: &Value) -> bool {
    let mut go_on = true;
    for (prop, kind, detail) in findings {
        if prop == own {
            go_on &= rep.violation(&format!("{prop}/{kind}"), &detail, case.clone());
        } else {
            rep.count(&format!("foreign_findings_{prop}"), 1);
            rep.info(format!("foreign finding {prop}/{kind}: {detail}"));
        }
    }
    go_on
}

fn run_opts(rng: &mut Rng, prog: &Program) -> RunOpts {
    RunOpts {
        walk_every: if prog.n <= 32 { 1 + rng.usize_below(4) } else { 64 },
        pre_run_probes: true,
        default_queue: false,
        paused_past_probes: false,
        finish_after_steps: false,
    }
}

// -------------------------------------------------------------------------------------------------
// C02
// -------------------------------------------------------------------------------------------------

// -------------------------------------------------------------------------------------------------
// C02 at the net level: messages injected through the runtime handle at absolute timestamps
// -------------------------------------------------------------------------------------------------

thread_local! {
    static INJ_LOG: std::cell::RefCell<Vec<(u16, u64)>> = const { std::cell::RefCell::new(Vec::new()) };
}

struct InjRx;
impl des::prelude::Module for InjRx {
    fn handle_message(&mut self, msg: des::prelude::Message) {
        INJ_LOG.with(|l| l.borrow_mut().push((msg.header().id, des::prelude::SimTime::now().as_nanos() as u64)));
    }
}

/// `Runtime<Sim>::add_message_onto` / `handle_message_on`: the message is handled at exactly the given timestamp, a
/// timestamp before the current time is rejected - before the run (start time 0 or not) and on a paused runtime
pub fn net_injection_probe(rng: &mut Rng) -> Vec<Finding> {
    use des::prelude::{Message, Sim};
    use des::runtime::{Builder, Runtime};
    use std::panic::{catch_unwind, AssertUnwindSafe};
    use std::time::Duration;
    let start = *rng.pick(&[0u64, 5_000_000_000, 1_000_000_000_000_003]);
    let bucket = if start > 1_000_000_000_000 { 3_600_000_000_000u64 } else { 1_000_000_000 };
    let delays: Vec<u64> = (0..2 + rng.usize_below(5)).map(|_| *rng.pick(&[0u64, 1, 700_000_000, 2_000_000_000, 9_000_000_001])).collect();
    let stepped = rng.chance(1, 2);
    INJ_LOG.with(|l| l.borrow_mut().clear());
    let mut expected: Vec<(u16, u64)> = Vec::new();
    let mut f: Vec<Finding> = Vec::new();
    let res = catch_unwind(AssertUnwindSafe(|| {
        let mut sim = Sim::new(());
        sim.node("m", InjRx);
        let gate = sim.gate("m", "in");
        let module = sim.get(&"m".into()).expect("module");
        let mut rt = Builder::seeded(1).quiet().start_time(st(start));
        #[cfg(feature = "cq")]
        {
            rt = rt.cqueue_options(32, Duration::from_nanos(bucket));
        }
        let _ = bucket;
        let mut rt = rt.build(sim.freeze());
        let mut id = 0u16;
        let mut inject = |rt: &mut Runtime<Sim<()>>, t: u64, id: u16| {
            if id % 2 == 0 {
                rt.add_message_onto(gate.clone(), Message::default().id(id), st(t));
            } else {
                rt.handle_message_on(module.clone(), Message::default().id(id), st(t));
            }
        };
        let mut past: Vec<(u64, u64, bool)> = Vec::new();
        for d in &delays {
            inject(&mut rt, start + d, id);
            expected.push((id, start + d));
            id += 1;
        }
        if start > 0 {
            for _ in 0..2 {
                let r = catch_unwind(AssertUnwindSafe(|| inject(&mut rt, start - 1, id)));
                past.push((start, start - 1, r.is_err()));
                id += 1;
            }
        }
        let result = if stepped {
            rt.start();
            rt.dispatch_events_until(st(start + 1_000_000_000));
            let now = rt.sim_time().as_nanos() as u64;
            for d in &delays {
                inject(&mut rt, now + d, id);
                expected.push((id, now + d));
                id += 1;
            }
            if now > 0 {
                for _ in 0..2 {
                    let r = catch_unwind(AssertUnwindSafe(|| inject(&mut rt, now - 1, id)));
                    past.push((now, now - 1, r.is_err()));
                    id += 1;
                }
            }
            rt.dispatch_all();
            rt.finish()
        } else {
            rt.run()
        };
        (result.is_ok(), past)
    }));
    let log = INJ_LOG.with(|l| std::mem::take(&mut *l.borrow_mut()));
    match res {
        Err(p) => f.push(("C02", "run-panicked", format!("injecting messages at absolute timestamps (start {start} ns, stepped = {stepped}) unwound with: {}", vcommon::panic_message(&p)))),
        Ok((ok, past)) => {
            if !ok {
                f.push(("C02", "run-error", "the run with injected messages returned an error".into()));
            }
            for (now, t, rejected) in past {
                if !rejected {
                    f.push(("C02", "past-add-accepted", format!("clock at {now} ns: a message injected for {t} ns (add_message_onto / handle_message_on) was accepted")));
                }
            }
            let mut want = expected.clone();
            want.sort_by_key(|e| e.1);
            let mut got = log.clone();
            got.sort_by_key(|e| (e.1, e.0));
            let mut want2 = want.clone();
            want2.sort_by_key(|e| (e.1, e.0));
            if got != want2 {
                let bad = got.iter().find(|g| !want2.contains(g));
                f.push((
                    "C02",
                    "now-differs",
                    format!(
                        "messages injected at absolute timestamps (start {start} ns, stepped = {stepped}): handled (id, now) {:?}, injected (id, timestamp) {:?}; first odd one {bad:?}",
                        &got[..got.len().min(8)],
                        &want2[..want2.len().min(8)]
                    ),
                ));
            }
            if log.windows(2).any(|w| w[1].1 < w[0].1) {
                f.push(("C02", "clock-decreased", format!("injected messages were handled at decreasing clock values: {:?}", &log[..log.len().min(8)])));
            }
        }
    }
    f
}

// -------------------------------------------------------------------------------------------------
// C02 on a timeline beyond 2^64 ns (the drivers above count nanoseconds in u64)
// -------------------------------------------------------------------------------------------------

struct FarApp {
    log: Vec<(des::prelude::SimTime, des::prelude::SimTime)>,
    rejected: u32,
}
struct FarEv {
    at: des::prelude::SimTime,
    follow: u8,
}
impl des::runtime::Application for FarApp {
    type EventSet = FarEv;
    type Lifecycle = ();
}
impl des::prelude::Event<FarApp> for FarEv {
    fn handle(self, rt: &mut des::runtime::Runtime<FarApp>) {
        use des::prelude::SimTime;
        rt.app.log.push((self.at, SimTime::now()));
        if self.follow > 0 {
            // a relative and an absolute follow-up, both at / after the current time
            let d = std::time::Duration::from_nanos(u64::from(self.follow) * 250_000_001);
            let at = self.at + d;
            let r = std::panic::catch_unwind(std::panic::AssertUnwindSafe(|| rt.add_event_in(FarEv { at, follow: self.follow - 1 }, d)));
            if r.is_err() {
                rt.app.rejected += 1;
            }
            let r = std::panic::catch_unwind(std::panic::AssertUnwindSafe(|| rt.add_event(FarEv { at: self.at, follow: 0 }, self.at)));
            if r.is_err() {
                rt.app.rejected += 1;
            }
        }
    }
}

/// start time 18 446 744 000 s (about 73.7 s below 2^64 ns), events up to a few hundred seconds later: the clock
/// equals the timestamps, never decreases, adds at / after now are accepted
pub fn far_timeline_probe(rng: &mut Rng) -> Vec<Finding> {
    use des::prelude::SimTime;
    use des::runtime::Builder;
    use std::time::Duration;
    let start = SimTime::from_duration(Duration::from_secs(18_446_744_000));
    let offsets: Vec<u64> = (0..3 + rng.usize_below(5)).map(|_| rng.below(400_000_000_000)).collect();
    let mut f: Vec<Finding> = Vec::new();
    let res = std::panic::catch_unwind(std::panic::AssertUnwindSafe(|| {
        let mut b = Builder::seeded(1).quiet().start_time(start);
        #[cfg(feature = "cq")]
        {
            b = b.cqueue_options(16, Duration::from_secs(1_000_000_000));
        }
        let mut rt = b.build(FarApp { log: Vec::new(), rejected: 0 });
        for o in &offsets {
            let at = start + Duration::from_nanos(*o);
            rt.add_event(FarEv { at, follow: 2 }, at);
        }
        rt.run().map(|(app, end, _)| (app.log, app.rejected, end)).map_err(|_| ())
    }));
    match res {
        Err(p) => f.push(("C02", "run-panicked", format!("a run starting at 18446744000 s unwound with: {}", vcommon::panic_message(&p)))),
        Ok(Err(())) => f.push(("C02", "run-error", "a run starting at 18446744000 s returned an error".into())),
        Ok(Ok((log, rejected, end))) => {
            if let Some((at, now)) = log.iter().find(|(at, now)| at != now) {
                f.push(("C02", "now-differs", format!("timeline beyond 2^64 ns: the handler of the event scheduled at {at} observed SimTime::now() = {now}")));
            }
            if let Some(w) = log.windows(2).find(|w| w[1].1 < w[0].1) {
                f.push(("C02", "clock-decreased", format!("timeline beyond 2^64 ns: the clock went from {} to {}", w[0].1, w[1].1)));
            }
            if rejected > 0 {
                f.push(("C02", "add-rejected", format!("timeline beyond 2^64 ns: {rejected} adds at / after the current time were rejected")));
            }
            if log.len() != offsets.len() * 5 {
                f.push(("C02", "not-handled", format!("timeline beyond 2^64 ns: {} events handled, {} scheduled", log.len(), offsets.len() * 5)));
            }
            if let Some(last) = log.last() {
                if end != last.0 {
                    f.push(("C02", "end-time", format!("timeline beyond 2^64 ns: end time {end}, last event at {}", last.0)));
                }
            }
        }
    }
    f
}

// -------------------------------------------------------------------------------------------------
// C02 with a second builder in another thread (the clock is process-global, simulations are serialised by des)
// -------------------------------------------------------------------------------------------------

struct SlowApp {
    log: Vec<(des::prelude::SimTime, des::prelude::SimTime, des::prelude::SimTime)>,
}
struct SlowEv(des::prelude::SimTime);
impl des::runtime::Application for SlowApp {
    type EventSet = SlowEv;
    type Lifecycle = ();
}
impl des::prelude::Event<SlowApp> for SlowEv {
    fn handle(self, rt: &mut des::runtime::Runtime<SlowApp>) {
        let before = des::prelude::SimTime::now();
        // give the other thread time to call Builder::build while this simulation is running
        std::thread::sleep(std::time::Duration::from_millis(2));
        rt.app.log.push((self.0, before, des::prelude::SimTime::now()));
    }
}

/// while one simulation runs, another thread builds a runtime with a different start time: that call has to wait for
/// the running simulation and must not touch its clock
pub fn concurrent_build_probe() -> Vec<Finding> {
    use des::prelude::SimTime;
    use des::runtime::Builder;
    use std::time::Duration;
    let (tx, rx) = std::sync::mpsc::channel::<()>();
    let mut f: Vec<Finding> = Vec::new();
    let result = std::thread::scope(|scope| {
        let a = scope.spawn(move || {
            let mut rt = Builder::seeded(1).quiet().build(SlowApp { log: Vec::new() });
            for k in 1..=6u64 {
                let at = SimTime::from_duration(Duration::from_secs(k));
                rt.add_event(SlowEv(at), at);
            }
            let _ = tx.send(());
            rt.run().map(|(app, _, _)| app.log).map_err(|_| ())
        });
        let b = scope.spawn(move || {
            let _ = rx.recv();
            // waits until the first runtime is gone
            let rt = Builder::seeded(2).quiet().start_time(SimTime::from_duration(Duration::from_secs(500))).build(SlowApp { log: Vec::new() });
            drop(rt);
        });
        let log = a.join();
        let _ = b.join();
        log
    });
    match result {
        Err(_) => f.push(("C02", "run-panicked", "a simulation running while another thread builds a runtime panicked".into())),
        Ok(Err(())) => f.push(("C02", "run-error", "a simulation running while another thread builds a runtime returned an error".into())),
        Ok(Ok(log)) => {
            if let Some((at, before, after)) = log.iter().find(|(at, b, a)| at != b || at != a) {
                f.push((
                    "C02",
                    "now-differs",
                    format!("while another thread was calling Builder::build: the handler of the event scheduled at {at} observed SimTime::now() = {before} when it started and {after} 2 ms (wall clock) later"),
                ));
            }
            if log.len() != 6 {
                f.push(("C02", "not-handled", format!("{} of 6 events handled while another thread was calling Builder::build", log.len())));
            }
        }
    }
    f
}

pub fn cmd_c02(args: &Args) -> Report {
    let mut rep = Report::new("C02");
    let mut rng = Rng::new(args.stream_seed("c02"));
    let cases = args.cases(160_000, 3_000_000);
    let max_events = args.extra_u64("events").unwrap_or(if args.thorough() { 2000 } else { 400 }) as usize;
    for i in 0..cases {
        let size = match rng.below(10) {
            0..=5 => 1 + rng.usize_below(30),
            6..=8 => 20 + rng.usize_below(max_events / 5 + 1),
            _ => max_events / 2 + rng.usize_below(max_events / 2 + 1),
        };
        if i % 500 == 250 {
            rep.count("runs_with_a_second_builder_in_another_thread", 1);
            let findings = concurrent_build_probe();
            if !report(&mut rep, "C02", findings, &json!({"driver": "desmon", "sub": "c02", "concurrent_build_probe": true, "note": "re-run the check with the same seed"})) {
                break;
            }
        }
        if i % 20 == 10 {
            rep.count("runs_on_a_timeline_beyond_2_64_ns", 1);
            let findings = far_timeline_probe(&mut rng);
            if !report(&mut rep, "C02", findings, &json!({"driver": "desmon", "sub": "c02", "far_timeline_probe": true, "note": "re-run the check with the same seed"})) {
                break;
            }
        }
        if i % 20 == 0 {
            rep.count("net_injection_probes", 1);
            let findings = net_injection_probe(&mut rng);
            if !report(&mut rep, "C02", findings, &json!({"driver": "desmon", "sub": "c02", "net_injection_probe": true, "note": "re-run the check with the same seed"})) {
                break;
            }
        }
        let tie_heavy = rng.chance(1, 3);
        let prog = gen_program(&mut rng, GenOpts { max_events: size, tie_heavy, past_attempts: true, nonzero_start: true, small_n: false });
        let mut opts = run_opts(&mut rng, &prog);
        // a fraction of the programs runs on the default queue parameters
        opts.default_queue = rng.chance(1, 10) && prog.start_ns / 2_500_000 <= 1_000_000 && prog.t_ns <= 3_000_000_000;
        vcommon::mark_case(&format!("c02:{}:{}:{}", args.seed, args.shard, i));
        let out = real_run(&prog, Mode::Run, &opts);
        rep.eval();
        rep.count("events_handled", out.log.len() as u64);
        rep.count("clock_writes_observed", out.clock.writes);
        rep.count("past_adds_rejected_in_handlers", out.past_rejected);
        rep.count("adds_at_or_after_now_accepted", out.adds_ok);
        rep.count("event_set_walks", out.walks);
        if prog.start_ns > 0 {
            rep.count("programs_with_nonzero_start", 1);
            if prog.start_ns >= 10_000_000_000_000_000 {
                rep.count("programs_starting_beyond_10_7_seconds", 1);
            }
            if out.pre_run_past_rejected == Some(true) {
                rep.count("pre_run_adds_before_start_rejected", 1);
            }
        }
        if opts.default_queue {
            rep.count("programs_on_default_queue_parameters", 1);
        }
        let findings = check_c02(&prog, &out, true);
        if findings.is_empty() && out.log.len() >= 3 {
            rep.nontrivial(prog_hash(&prog, 0));
            if rep.wants_sample() && out.log.len() <= 8 {
                rep.sample(json!({"program": serde_json::to_value(&prog).unwrap(), "trace": serde_json::to_value(&out.log).unwrap()}));
            }
        }
        let clean = findings.is_empty();
        let case = case_json("c02", &prog, json!({"run": {"default_queue": opts.default_queue}}));
        if !report(&mut rep, "C02", findings, &case) {
            break;
        }
        // the same program driven in steps: the clock stays monotone, equals the timestamps, and between
        // steps an insertion just below the reported time is rejected
        if clean && i % 3 == 0 && !out.log.is_empty() {
            let mut prog2 = prog.clone();
            let steps = random_schedule(&mut rng, &mut prog2, &out.log, i % 2 == 0);
            opts.paused_past_probes = true;
            let out2 = real_run(&prog2, Mode::Steps(&steps), &opts);
            rep.count("stepped_runs", 1);
            rep.count("paused_adds_below_reported_time_rejected", out2.paused_past_rejected);
            rep.count("clock_writes_observed", out2.clock.writes);
            let findings = check_c02(&prog2, &out2, true);
            let case = case_json("c02", &prog2, json!({"steps": serde_json::to_value(&steps).unwrap(), "past_probes": true}));
            if !report(&mut rep, "C02", findings, &case) {
                break;
            }
        }
    }
    rep
}

// -------------------------------------------------------------------------------------------------
// C03 at runtime level
// -------------------------------------------------------------------------------------------------

pub fn cmd_c03rt(args: &Args) -> Report {
    let mut rep = Report::new("C03");
    let mut rng = Rng::new(args.stream_seed("c03rt"));
    let cases = args.cases(120_000, 2_000_000);
    let max_events = args.extra_u64("events").unwrap_or(if args.thorough() { 1500 } else { 300 }) as usize;
    for i in 0..cases {
        let size = match rng.below(10) {
            0..=5 => 2 + rng.usize_below(40),
            6..=8 => 20 + rng.usize_below(max_events / 4 + 1),
            _ => max_events / 2 + rng.usize_below(max_events / 2 + 1),
        };
        let nonzero_start = rng.chance(1, 4);
        let prog = gen_program(&mut rng, GenOpts { max_events: size, tie_heavy: true, past_attempts: false, nonzero_start, small_n: false });
        let opts = run_opts(&mut rng, &prog);
        vcommon::mark_case(&format!("c03rt:{}:{}:{}", args.seed, args.shard, i));
        let out = real_run(&prog, Mode::Run, &opts);
        rep.eval();
        rep.count("events_handled", out.log.len() as u64);
        let groups = tie_groups(&out.log);
        rep.count("tie_groups_dispatched", groups as u64);
        let mut findings = check_order(&prog, &out);
        findings.extend(check_c02(&prog, &out, true));
        if findings.is_empty() && groups > 0 {
            rep.nontrivial(prog_hash(&prog, 1));
            if rep.wants_sample() && out.log.len() <= 10 && groups > 0 {
                rep.sample(json!({"program": serde_json::to_value(&prog).unwrap(), "trace": serde_json::to_value(&out.log).unwrap()}));
            }
        }
        // the same program on other queue parameters must dispatch in the same order
        if findings.is_empty() && rng.chance(1, 5) {
            let mut other = prog.clone();
            other.n = *rng.pick(NS);
            let horizon = out.log.last().map_or(0, |r| r.now_ns) + 1;
            let ok: Vec<u64> = TS.iter().copied().filter(|t| horizon / t <= 2_000_000).collect();
            if !ok.is_empty() {
                other.t_ns = *rng.pick(&ok);
                let out2 = real_run(&other, Mode::Run, &opts);
                rep.count("metamorphic_replays", 1);
                let a: Vec<usize> = out.log.iter().map(|r| r.id).collect();
                let b: Vec<usize> = out2.log.iter().map(|r| r.id).collect();
                if a != b && out2.panicked.is_none() {
                    let case = case_json("c03rt", &other, json!({"run": {"metamorphic_of": {"n": prog.n, "t_ns": prog.t_ns}}}));
                    if !rep.violation(
                        "C03/order-depends-on-context",
                        &format!("the dispatch order changed with the queue parameters ({}, {} ns) -> ({}, {} ns)", prog.n, prog.t_ns, other.n, other.t_ns),
                        case,
                    ) {
                        break;
                    }
                }
            }
        }
        let clean = findings.is_empty();
        let case = case_json("c03rt", &prog, json!({"run": {}}));
        if !report(&mut rep, "C03", findings, &case) {
            break;
        }
        // the same rule on a runtime that is paused and resumed (n-steps, until-steps, adds from outside while
        // paused): pausing must not reorder anything
        if clean && cfg!(feature = "cq") && i % 3 == 0 {
            let sopts = RunOpts { walk_every: 0, pre_run_probes: false, default_queue: false, paused_past_probes: false, finish_after_steps: false };
            for with_ext in [false, true] {
                let mut p = prog.clone();
                let steps = random_schedule(&mut rng, &mut p, &out.log, with_ext);
                let sout = real_run(&p, Mode::Steps(&steps), &sopts);
                rep.count("stepped_executions_checked_for_order", 1);
                let mut cum = 0usize;
                for o in &sout.steps {
                    cum += o.handled;
                    if cum > 0 && cum < sout.log.len() && sout.log[cum - 1].now_ns == sout.log[cum].now_ns {
                        rep.count("pauses_inside_a_group_of_equal_timestamps", 1);
                    }
                }
                if let Some(f) = stepped_order(&p, &steps, &sout) {
                    let case = case_json("c03rt", &p, json!({"steps": serde_json::to_value(&steps).unwrap()}));
                    if !report(&mut rep, "C03", vec![f], &case) {
                        return rep;
                    }
                }
            }
        }
    }
    rep
}

/// order of a stepped execution against the reference model driven through the same steps (ids only: counts and
/// times are C10's and C02's business)
fn stepped_order(prog: &Program, steps: &[Step], out: &Outcome) -> Option<Finding> {
    if out.panicked.is_some() {
        return None;
    }
    let mut m = Model::new(prog);
    m.add_roots(false);
    m.add_roots(true);
    for s in steps {
        match s {
            Step::N(k) => {
                m.dispatch_n(*k);
            }
            Step::Until(t) => {
                m.dispatch_until(*t);
            }
            Step::Ext { time_ns, id } => m.add(*time_ns, *id),
        }
    }
    m.dispatch_all();
    let real: Vec<usize> = out.log.iter().map(|r| r.id).collect();
    let exp: Vec<usize> = m.handled.iter().map(|r| r.id).collect();
    if real == exp {
        return None;
    }
    let (mut a, mut b) = (real.clone(), exp.clone());
    a.sort_unstable();
    b.sort_unstable();
    if a != b {
        // another set of events was dispatched: not a question of order
        return None;
    }
    let pos = real.iter().zip(&exp).position(|(x, y)| x != y)?;
    Some((
        "C03",
        "tie-order-stepped",
        format!(
            "paused and resumed run ({} steps): dispatch #{pos} at {} ns: expected event {} by the scheduling-order rule, observed {}",
            steps.len(),
            m.handled[pos].now_ns,
            exp[pos],
            real[pos]
        ),
    ))
}

// -------------------------------------------------------------------------------------------------
// C10: stepping
// -------------------------------------------------------------------------------------------------

/// Checks one stepped execution against the model and (if given) the uninterrupted trace.
pub fn check_c10(prog: &Program, steps: &[Step], out: &Outcome, uninterrupted: Option<&[Rec]>) -> Vec<Finding> {
    let mut f: Vec<Finding> = Vec::new();
    if let Some(p) = &out.panicked {
        f.push(("C10", "run-panicked", format!("the stepped run unwound with: {p}")));
        return f;
    }
    for p in &out.problems {
        let (prop, kind) = problem_kind(&p.kind);
        f.push((prop, kind, p.detail.clone()));
    }
    // model execution of the same schedule
    let mut m = Model::new(prog);
    if !cfg!(feature = "cq") {
        m.guide = Some(out.log.iter().map(|r| r.id).collect());
    }
    m.add_roots(false);
    m.add_roots(true);
    let mut pos = 0usize;
    for (i, s) in steps.iter().enumerate() {
        let Some(obs) = out.steps.get(i) else {
            f.push(("C10", "step-missing", format!("step #{i} was not observed")));
            return f;
        };
        let expected = match s {
            Step::N(k) => m.dispatch_n(*k),
            Step::Until(t) => m.dispatch_until(*t),
            Step::Ext { time_ns, id } => {
                m.add(*time_ns, *id);
                0
            }
        };
        if obs.handled != expected {
            let what = match s {
                Step::N(k) => format!("dispatch_n_events({k}) handled {} events, expected {expected} (pending before: {})", obs.handled, m.pending() + expected),
                Step::Until(t) => {
                    format!("dispatch_events_until({t} ns) handled {} events, expected {expected} (those with timestamp <= {t} ns)", obs.handled)
                }
                Step::Ext { .. } => format!("an external add dispatched {} events", obs.handled),
            };
            f.push(("C10", "step-count", format!("step #{i}: {what}")));
            return f;
        }
        if let Step::Until(t) = s {
            for r in &out.log[pos..pos + obs.handled] {
                if r.now_ns > *t {
                    f.push(("C10", "until-overrun", format!("step #{i}: dispatch_events_until({t} ns) handled an event at {} ns", r.now_ns)));
                    return f;
                }
            }
        }
        pos += obs.handled;
        if obs.sim_time_ns != m.last_time {
            f.push((
                "C10",
                "paused-time",
                format!("after step #{i} sim_time() = {} ns, the last dispatched event was at {} ns", obs.sim_time_ns, m.last_time),
            ));
            return f;
        }
        if obs.remaining != m.pending() {
            f.push(("C10", "paused-remaining", format!("after step #{i} num_events_remaining() = {}, expected {}", obs.remaining, m.pending())));
            return f;
        }
        if obs.dispatched != m.handled.len() {
            f.push(("C10", "paused-dispatched", format!("after step #{i} num_events_dispatched() = {}, expected {}", obs.dispatched, m.handled.len())));
            return f;
        }
    }
    m.dispatch_all();
    // same events, same order, same times as the model ...
    if out.log != m.handled {
        let p = out.log.iter().zip(&m.handled).position(|(a, b)| a != b).unwrap_or(out.log.len().min(m.handled.len()));
        f.push((
            "C10",
            "trace-differs",
            format!("stepped trace differs from the reference at dispatch #{p}: observed {:?}, expected {:?}", out.log.get(p), m.handled.get(p)),
        ));
        return f;
    }
    // ... and as the uninterrupted run of the real code
    if let Some(u) = uninterrupted {
        if out.log != u {
            let p = out.log.iter().zip(u).position(|(a, b)| a != b).unwrap_or(out.log.len().min(u.len()));
            f.push((
                "C10",
                "trace-differs",
                format!("stepped trace differs from the uninterrupted run at dispatch #{p}: stepped {:?}, uninterrupted {:?}", out.log.get(p), u.get(p)),
            ));
        }
    }
    f.extend(check_c02(prog, out, true).into_iter().filter(|x| x.0 != "C02" || x.1 != "not-handled"));
    f
}

fn distinct_times(trace: &[Rec]) -> Vec<u64> {
    let mut t: Vec<u64> = trace.iter().map(|r| r.now_ns).collect();
    t.dedup();
    t
}

fn random_schedule(rng: &mut Rng, prog: &mut Program, trace: &[Rec], with_ext: bool) -> Vec<Step> {
    random_schedule_with(rng, prog, trace, with_ext, false)
}

/// `draining`: a third of the n-steps takes everything that is pending (external adds then hit an empty event set)
fn random_schedule_with(rng: &mut Rng, prog: &mut Program, trace: &[Rec], with_ext: bool, draining: bool) -> Vec<Step> {
    let times = distinct_times(trace);
    let k = 1 + rng.usize_below(6);
    // nodes for external adds are appended to the program (they have no children)
    let base_len = prog.nodes.len();
    prog.nodes.extend((0..k).map(|_| Node::default()));
    let mut used = 0usize;
    let steps = {
        let prog: &Program = prog;
        // a cursor through the reference execution places cuts and external adds consistently
        let mut mm = Model::new(prog);
        mm.add_roots(false);
        mm.add_roots(true);
        let mut steps = Vec::new();
        for _ in 0..k {
            match rng.below(if with_ext { 3 } else { 2 }) {
                0 => {
                    let n = match rng.below(4) {
                        _ if draining && rng.chance(1, 3) => trace.len() + 7,
                        0 => 0,
                        1 => 1,
                        2 => 1 + rng.usize_below(4),
                        _ => rng.usize_below(trace.len() + 2),
                    };
                    mm.dispatch_n(n);
                    steps.push(Step::N(n));
                }
                1 => {
                    let t = if times.is_empty() || rng.chance(1, 6) {
                        prog.start_ns + rng.below(1000)
                    } else {
                        // below / at / between / above timestamps
                        let base = *rng.pick(&times);
                        match rng.below(4) {
                            0 => base,
                            1 => base.saturating_sub(1),
                            2 => base + 1,
                            _ => base + rng.below(prog.t_ns * 2 + 2),
                        }
                    };
                    mm.dispatch_until(t);
                    steps.push(Step::Until(t));
                }
                _ => {
                    // external add at / after the reported time: at sim_time, before / at / after the next event
                    let now = mm.last_time;
                    let next = mm.peek_time();
                    let time_ns = match (rng.below(5), next) {
                        (0, _) => now,
                        (1, Some(nx)) if nx > now => now + rng.below(nx - now + 1),
                        (2, Some(nx)) => nx.max(now),
                        (3, Some(nx)) => nx.max(now) + 1 + rng.below(prog.t_ns + 1),
                        _ => now + rng.below(prog.t_ns * (prog.n as u64 + 1) + 1),
                    };
                    let id = base_len + used;
                    used += 1;
                    mm.add(time_ns, id);
                    steps.push(Step::Ext { time_ns, id });
                }
            }
        }
        steps
    };
    prog.nodes.truncate(base_len + used);
    steps
}

pub fn cmd_c10(args: &Args) -> Report {
    let mut rep = Report::new("C10");
    let mut rng = Rng::new(args.stream_seed("c10"));
    let cases = args.cases(40_000, 800_000);
    let max_events = args.extra_u64("events").unwrap_or(if args.thorough() { 600 } else { 150 }) as usize;
    'cases: for i in 0..cases {
        if i % 25 == 0 {
            // messages injected into a (half of the time paused) net simulation through the runtime handle are events
            // added from outside like any other: accepted at / after the reported time, delivered at their timestamp
            rep.count("net_injection_probes", 1);
            let findings: Vec<Finding> = net_injection_probe(&mut rng).into_iter().map(|(_, kind, detail)| ("C10", kind, detail)).collect();
            if !report(&mut rep, "C10", findings, &json!({"driver": "desmon", "sub": "c10", "net_injection_probe": true, "note": "re-run the check with the same seed"})) {
                break;
            }
        }
        let small = rng.chance(1, 3);
        let size = if small { 1 + rng.usize_below(7) } else { 2 + rng.usize_below(max_events) };
        let (tie_heavy, nonzero_start) = (rng.chance(2, 3), rng.chance(1, 4));
        let prog = gen_program(&mut rng, GenOpts { max_events: size, tie_heavy, past_attempts: false, nonzero_start, small_n: false });
        let opts = RunOpts { walk_every: if prog.n <= 32 { 2 } else { 0 }, pre_run_probes: false, default_queue: false, paused_past_probes: false, finish_after_steps: false };
        vcommon::mark_case(&format!("c10:{}:{}:{}", args.seed, args.shard, i));
        let base = real_run(&prog, Mode::Run, &opts);
        rep.eval();
        let base_findings = check_c02(&prog, &base, true);
        if !base_findings.is_empty() {
            // the uninterrupted run itself is broken: C02's / C03's business
            let case = case_json("c10", &prog, json!({"run": {}}));
            if !report(&mut rep, "C10", base_findings, &case) {
                break;
            }
            continue;
        }
        let m = prog.nodes.len();
        let mut schedules: Vec<(Program, Vec<Step>, bool)> = Vec::new();
        if small && m <= 7 {
            // exhaustive: every composition of the run into <= 4 n-event steps ...
            for a in 0..=m {
                schedules.push((prog.clone(), vec![Step::N(a)], false));
                for b in 0..=(m - a) {
                    if a + b < m || b == 0 {
                        schedules.push((prog.clone(), vec![Step::N(a), Step::N(b)], false));
                    }
                    for c in 1..=(m - a - b) {
                        schedules.push((prog.clone(), vec![Step::N(a), Step::N(b), Step::N(c)], false));
                    }
                }
            }
            // ... and every until-cut below / at / above every timestamp, also in pairs
            let times = distinct_times(&base.log);
            let mut cuts: Vec<u64> = vec![prog.start_ns];
            for t in &times {
                cuts.extend([t.saturating_sub(1), *t, t + 1]);
            }
            cuts.retain(|c| *c >= prog.start_ns);
            cuts.sort_unstable();
            cuts.dedup();
            for (x, c1) in cuts.iter().enumerate() {
                schedules.push((prog.clone(), vec![Step::Until(*c1)], false));
                for c2 in &cuts[x..] {
                    schedules.push((prog.clone(), vec![Step::Until(*c1), Step::Until(*c2)], false));
                    schedules.push((prog.clone(), vec![Step::Until(*c1), Step::N(1), Step::Until(*c2)], false));
                }
                schedules.push((prog.clone(), vec![Step::N(1), Step::Until(*c1), Step::N(1)], false));
            }
            rep.count("programs_with_exhaustive_step_schedules", 1);
        }
        for _ in 0..3 {
            let mut p = prog.clone();
            let s = random_schedule(&mut rng, &mut p, &base.log, false);
            schedules.push((p, s, false));
        }
        for _ in 0..3 {
            let mut p = prog.clone();
            let s = random_schedule(&mut rng, &mut p, &base.log, true);
            let has_ext = s.iter().any(|x| matches!(x, Step::Ext { .. }));
            schedules.push((p, s, has_ext));
        }
        for (p, steps, has_ext) in schedules {
            let out = real_run(&p, Mode::Steps(&steps), &opts);
            rep.count("stepped_executions", 1);
            rep.count("steps_observed", out.steps.len() as u64);
            let findings = check_c10(&p, &steps, &out, if has_ext { None } else { Some(&base.log) });
            // cuts inside a group of equal timestamps
            let mut cum = 0usize;
            for (s, o) in steps.iter().zip(&out.steps) {
                cum += o.handled;
                if cum > 0 && cum < out.log.len() && out.log[cum - 1].now_ns == out.log[cum].now_ns {
                    rep.count("cuts_inside_a_tie_group", 1);
                }
                if let Step::Ext { .. } = s {
                    rep.count("external_adds_while_paused", 1);
                }
            }
            if findings.is_empty() && out.steps.iter().any(|o| o.handled > 0 && o.remaining > 0) {
                let mut h = Hasher64::new();
                for s in &steps {
                    match s {
                        Step::N(k) => h.u64(1).u64(*k as u64),
                        Step::Until(t) => h.u64(2).u64(*t),
                        Step::Ext { time_ns, id } => h.u64(3).u64(*time_ns).u64(*id as u64),
                    };
                }
                rep.nontrivial(prog_hash(&p, h.finish()));
                if rep.wants_sample() && p.nodes.len() <= 6 && steps.len() >= 2 {
                    rep.sample(json!({"program": serde_json::to_value(&p).unwrap(), "steps": serde_json::to_value(&steps).unwrap(),
                                      "trace": serde_json::to_value(&out.log).unwrap(), "paused": serde_json::to_value(&out.steps).unwrap()}));
                }
            }
            let case = case_json("c10", &p, json!({"steps": serde_json::to_value(&steps).unwrap(), "compare_uninterrupted": !has_ext}));
            if !report(&mut rep, "C10", findings, &case) {
                break 'cases;
            }
        }
    }
    rep
}

// -------------------------------------------------------------------------------------------------
// C11: limits
// -------------------------------------------------------------------------------------------------

pub fn check_c11(prog: &Program, calls: &[LimitCall], out: &Outcome, unlimited: &[Rec]) -> Vec<Finding> {
    check_c11_ext(prog, calls, out, unlimited, 0, &[])
}

/// `stepped`: number of events the steps before the final dispatch_all handled (a step replaces the configured limit
/// while it runs); `ext`: events added from outside between the steps (id, time)
pub fn check_c11_ext(prog: &Program, calls: &[LimitCall], out: &Outcome, unlimited: &[Rec], stepped: usize, ext: &[(usize, u64)]) -> Vec<Finding> {
    let mut f: Vec<Finding> = Vec::new();
    if let Some(p) = &out.panicked {
        f.push(("C11", "run-panicked", format!("the limited run unwound with: {p}")));
        return f;
    }
    for p in &out.problems {
        let (prop, kind) = problem_kind(&p.kind);
        f.push((prop, kind, p.detail.clone()));
    }
    let tree = combined(calls);
    // stop index: the first event the limit does not admit
    let p = match &tree {
        None => unlimited.len(),
        Some(tree) => (0..unlimited.len()).find(|i| tree.applies(i + 1, unlimited[*i].now_ns)).unwrap_or(unlimited.len()),
    };
    // the limit conditions are monotone along the sequence: what the steps handled beyond p stays handled, the final
    // dispatch_all adds nothing to it
    let p = p.max(stepped);
    if out.log.len() != p || out.log[..] != unlimited[..p.min(unlimited.len())] {
        let kind = if out.log.len() > p { "overrun" } else if out.log.len() < p { "stopped-early" } else { "prefix-differs" };
        f.push((
            "C11",
            kind,
            format!("limit {:?} admits exactly {p} of {} events, the run handled {}", tree, unlimited.len(), out.log.len()),
        ));
        return f;
    }
    if out.event_count != Some(p) {
        f.push(("C11", "event-count", format!("profiler.event_count = {:?}, handled {p}", out.event_count)));
    }
    let exp_end = if p == 0 { prog.start_ns } else { unlimited[p - 1].now_ns };
    if out.end_time_ns != Some(exp_end) {
        f.push(("C11", "end-time", format!("reported end time {:?} ns, last dispatched event at {exp_end} ns", out.end_time_ns)));
    }
    // remaining = scheduled by the handled prefix (and the roots) and not handled
    let handled: HashSet<usize> = out.log.iter().map(|r| r.id).collect();
    let mut expected: Vec<(usize, u64)> = Vec::new();
    for r in &prog.roots {
        if !handled.contains(&r.id) {
            expected.push((r.id, r.time_ns));
        }
    }
    for (id, t) in ext {
        if !handled.contains(id) {
            expected.push((*id, *t));
        }
    }
    for r in &out.log {
        for c in &prog.nodes[r.id].children {
            if !handled.contains(&c.id) {
                expected.push((c.id, r.now_ns + c.delay_ns));
            }
        }
    }
    expected.sort_unstable();
    if out.remaining != expected || out.remaining_ghosts > 0 {
        let lost: Vec<&(usize, u64)> = expected.iter().filter(|e| !out.remaining.contains(e)).take(4).collect();
        let extra: Vec<&(usize, u64)> = out.remaining.iter().filter(|e| !expected.contains(e)).take(4).collect();
        f.push((
            "C11",
            "remaining-differs",
            format!("{} remaining events returned, {} expected; lost {:?}, unexpected {:?}", out.remaining.len(), expected.len(), lost, extra),
        ));
    }
    if let Some((prev, new)) = out.clock.backwards.first() {
        f.push(("C02", "clock-write-backwards", format!("the clock was written from {prev} ns back to {new} ns")));
    }
    f
}

fn random_tree(rng: &mut Rng, depth: u32, n_events: usize, times: &[u64], start: u64) -> LTree {
    if depth == 0 || rng.chance(2, 5) {
        if rng.chance(1, 2) {
            LTree::Count(rng.usize_below(n_events + 3))
        } else {
            let t = if times.is_empty() {
                start + rng.below(100)
            } else {
                let b = *rng.pick(times);
                match rng.below(3) {
                    0 => b,
                    1 => b.saturating_sub(1),
                    _ => b + 1,
                }
            };
            LTree::Time(t)
        }
    } else {
        let a = Box::new(random_tree(rng, depth - 1, n_events, times, start));
        let b = Box::new(random_tree(rng, depth - 1, n_events, times, start));
        if rng.chance(1, 2) {
            LTree::And(a, b)
        } else {
            LTree::Or(a, b)
        }
    }
}

/// the steps of a limited, stepped run on the model without any limit: (complete trace, events handled by the steps,
/// external adds, whether an add followed a step that drained the event set)
fn limited_steps_reference(prog: &Program, steps: &[Step], out: &Outcome) -> (Vec<Rec>, usize, Vec<(usize, u64)>, bool) {
    let mut m = Model::new(prog);
    if !cfg!(feature = "cq") {
        m.guide = Some(out.log.iter().map(|r| r.id).collect());
    }
    m.add_roots(false);
    m.add_roots(true);
    let mut ext: Vec<(usize, u64)> = Vec::new();
    let mut drained_then_added = false;
    for s in steps {
        match s {
            Step::N(k) => {
                m.dispatch_n(*k);
            }
            Step::Until(t) => {
                m.dispatch_until(*t);
            }
            Step::Ext { time_ns, id } => {
                if m.pending() == 0 && !m.handled.is_empty() {
                    drained_then_added = true;
                }
                m.add(*time_ns, *id);
                ext.push((*id, *time_ns));
            }
        }
    }
    let stepped = m.handled.len();
    m.dispatch_all();
    (m.handled.clone(), stepped, ext, drained_then_added)
}

pub fn cmd_c11(args: &Args) -> Report {
    let mut rep = Report::new("C11");
    let mut rng = Rng::new(args.stream_seed("c11"));
    let cases = args.cases(72_000, 1_500_000);
    let max_events = args.extra_u64("events").unwrap_or(if args.thorough() { 600 } else { 150 }) as usize;
    'cases: for i in 0..cases {
        let small = rng.chance(1, 2);
        let size = if small { 1 + rng.usize_below(30) } else { 2 + rng.usize_below(max_events) };
        let (tie_heavy, nonzero_start) = (rng.chance(1, 2), rng.chance(1, 4));
        let prog = gen_program(&mut rng, GenOpts { max_events: size, tie_heavy, past_attempts: false, nonzero_start, small_n: false });
        let opts = RunOpts { walk_every: if prog.n <= 32 { 3 } else { 0 }, pre_run_probes: false, default_queue: false, paused_past_probes: false, finish_after_steps: false };
        vcommon::mark_case(&format!("c11:{}:{}:{}", args.seed, args.shard, i));
        let base = real_run(&prog, Mode::Run, &opts);
        rep.eval();
        let base_findings = check_c02(&prog, &base, true);
        if !base_findings.is_empty() {
            let case = case_json("c11", &prog, json!({"run": {}}));
            if !report(&mut rep, "C11", base_findings, &case) {
                break;
            }
            continue;
        }
        let e = &base.log;
        let times = distinct_times(e);
        let mut limits: Vec<Vec<LimitCall>> = Vec::new();
        if small {
            // exhaustive: every count, every time below / at / between / above the timestamps
            for n in 0..=e.len() + 2 {
                limits.push(vec![LimitCall::MaxItr(n)]);
            }
            let mut cuts: Vec<u64> = vec![prog.start_ns, prog.start_ns.saturating_sub(1)];
            for t in &times {
                cuts.extend([t.saturating_sub(1), *t, t + 1]);
            }
            cuts.sort_unstable();
            cuts.dedup();
            for c in cuts {
                limits.push(vec![LimitCall::MaxTime(c)]);
            }
            rep.count("programs_with_exhaustive_limits", 1);
        } else {
            for _ in 0..4 {
                limits.push(vec![LimitCall::MaxItr(rng.usize_below(e.len() + 3))]);
                limits.push(vec![LimitCall::MaxTime(random_tree(&mut rng, 0, 0, &times, prog.start_ns).time_or(prog.start_ns))]);
            }
        }
        for _ in 0..6 {
            // builder calls in random order, nested trees
            let k = 1 + rng.usize_below(3);
            let mut calls = Vec::new();
            for _ in 0..k {
                calls.push(match rng.below(3) {
                    0 => LimitCall::MaxItr(rng.usize_below(e.len() + 3)),
                    1 => LimitCall::MaxTime(random_tree(&mut rng, 0, 0, &times, prog.start_ns).time_or(prog.start_ns)),
                    _ => LimitCall::Limit(random_tree(&mut rng, 3, e.len(), &times, prog.start_ns)),
                });
            }
            limits.push(calls);
        }
        limits.push(Vec::new());
        for calls in limits {
            let out = real_run(&prog, Mode::Limited(&calls), &opts);
            rep.count("limited_executions", 1);
            let findings = check_c11(&prog, &calls, &out, e);
            let stopped_inside = out.log.len() < e.len();
            if stopped_inside {
                rep.count("runs_stopped_with_events_pending", 1);
                rep.count("remaining_events_returned", out.remaining.len() as u64);
                if !out.log.is_empty() && e[out.log.len() - 1].now_ns == e[out.log.len()].now_ns {
                    rep.count("stops_inside_a_tie_group", 1);
                }
            }
            if calls.iter().any(|c| matches!(c, LimitCall::Limit(LTree::And(..) | LTree::Or(..)))) || calls.len() > 1 {
                rep.count("combined_limits", 1);
            }
            if findings.is_empty() && stopped_inside && !out.log.is_empty() {
                let mut h = Hasher64::new();
                h.str(&format!("{calls:?}"));
                rep.nontrivial(prog_hash(&prog, h.finish()));
                if rep.wants_sample() && prog.nodes.len() <= 6 {
                    rep.sample(json!({"program": serde_json::to_value(&prog).unwrap(), "limit_calls": serde_json::to_value(&calls).unwrap(),
                                      "handled": serde_json::to_value(&out.log).unwrap(), "remaining": serde_json::to_value(&out.remaining).unwrap()}));
                }
            }
            let case = case_json("c11", &prog, json!({"limit_calls": serde_json::to_value(&calls).unwrap()}));
            if !report(&mut rep, "C11", findings, &case) {
                break 'cases;
            }
            // the same single limit through the stepping interface: start, one step, finish
            let step = match calls.as_slice() {
                [LimitCall::MaxItr(n)] => Some(Step::N(*n)),
                [LimitCall::MaxTime(t)] if *t >= prog.start_ns => Some(Step::Until(*t)),
                _ => None,
            };
            // a configured limit must survive the stepping interface: steps (which replace it while they run), events
            // added from outside while paused (also after a step that drained the event set), then dispatch_all + finish
            if rng.chance(1, 4) {
                let mut p2 = prog.clone();
                let steps = random_schedule_with(&mut rng, &mut p2, e, true, true);
                let sopts = RunOpts { walk_every: 0, pre_run_probes: false, default_queue: false, paused_past_probes: false, finish_after_steps: false };
                let out = real_run(&p2, Mode::LimitedSteps(&calls, &steps), &sopts);
                // reference: the same steps on the model, without any limit
                let (m_handled, stepped, ext, drained_then_added) = limited_steps_reference(&p2, &steps, &out);
                rep.count("limits_kept_across_steps_and_external_adds", 1);
                if drained_then_added {
                    rep.count("limited_runs_with_an_add_after_a_step_drained_the_event_set", 1);
                }
                let findings = check_c11_ext(&p2, &calls, &out, &m_handled, stepped, &ext);
                let case = case_json("c11", &p2, json!({"limit_calls": serde_json::to_value(&calls).unwrap(), "steps": serde_json::to_value(&steps).unwrap(), "limited_steps": true}));
                if !report(&mut rep, "C11", findings, &case) {
                    break 'cases;
                }
            }
            if let Some(step) = step {
                let steps = [step];
                let sopts = RunOpts { finish_after_steps: true, ..RunOpts { walk_every: opts.walk_every, pre_run_probes: false, default_queue: false, paused_past_probes: false, finish_after_steps: true } };
                let out = real_run(&prog, Mode::Steps(&steps), &sopts);
                rep.count("limits_applied_through_one_step_and_finish", 1);
                let findings = check_c11(&prog, &calls, &out, e);
                let case = case_json("c11", &prog, json!({"limit_calls": serde_json::to_value(&calls).unwrap(), "steps": serde_json::to_value(&steps).unwrap(), "finish_after_steps": true}));
                if !report(&mut rep, "C11", findings, &case) {
                    break 'cases;
                }
            }
        }
    }
    rep
}

impl LTree {
    fn time_or(&self, default: u64) -> u64 {
        match self {
            LTree::Time(t) => *t,
            _ => default,
        }
    }
}

// -------------------------------------------------------------------------------------------------
// replay
// -------------------------------------------------------------------------------------------------

pub fn replay(case: &Value) -> i32 {
    let prog: Program = serde_json::from_value(case.get("program").expect("program").clone()).expect("program");
    let mode = case.get("mode").expect("mode");
    let opts = RunOpts {
        walk_every: 1,
        pre_run_probes: true,
        default_queue: mode.pointer("/run/default_queue").and_then(Value::as_bool).unwrap_or(false),
        paused_past_probes: mode.get("past_probes").and_then(Value::as_bool).unwrap_or(false),
        finish_after_steps: mode.get("finish_after_steps").and_then(Value::as_bool).unwrap_or(false),
    };
    let sub = case.get("sub").and_then(Value::as_str).unwrap_or("");
    println!("program: {}", serde_json::to_string(&prog).unwrap());
    let findings: Vec<Finding> = if mode.get("limited_steps").and_then(Value::as_bool).unwrap_or(false) {
        let steps: Vec<Step> = serde_json::from_value(mode.get("steps").expect("steps").clone()).expect("steps");
        let calls: Vec<LimitCall> = serde_json::from_value(mode.get("limit_calls").expect("limit calls").clone()).expect("limit calls");
        println!("limit calls: {calls:?}\nsteps: {steps:?}");
        let out = real_run(&prog, Mode::LimitedSteps(&calls, &steps), &RunOpts { finish_after_steps: false, ..opts });
        println!("trace: {:?}\nremaining: {:?}", out.log, out.remaining);
        let (reference, stepped, ext, _) = limited_steps_reference(&prog, &steps, &out);
        check_c11_ext(&prog, &calls, &out, &reference, stepped, &ext)
    } else if let Some(steps) = mode.get("steps") {
        let steps: Vec<Step> = serde_json::from_value(steps.clone()).expect("steps");
        println!("steps: {steps:?}");
        let base = if mode.get("compare_uninterrupted").and_then(Value::as_bool).unwrap_or(false) {
            Some(real_run(&prog, Mode::Run, &opts).log)
        } else {
            None
        };
        let out = real_run(&prog, Mode::Steps(&steps), &opts);
        println!("stepped trace: {:?}\npaused observations: {:?}", out.log, out.steps);
        if sub == "c02" {
            check_c02(&prog, &out, true)
        } else if sub == "c03rt" {
            stepped_order(&prog, &steps, &out).into_iter().collect()
        } else if sub == "c11" {
            let calls: Vec<LimitCall> = serde_json::from_value(mode.get("limit_calls").expect("limit calls").clone()).expect("limit calls");
            let unlimited = real_run(&prog, Mode::Run, &RunOpts { finish_after_steps: false, ..opts });
            check_c11(&prog, &calls, &out, &unlimited.log)
        } else {
            check_c10(&prog, &steps, &out, base.as_deref())
        }
    } else if let Some(calls) = mode.get("limit_calls") {
        let calls: Vec<LimitCall> = serde_json::from_value(calls.clone()).expect("limit calls");
        let base = real_run(&prog, Mode::Run, &opts);
        let out = real_run(&prog, Mode::Limited(&calls), &opts);
        println!("unlimited trace: {:?}\nlimited trace: {:?}\nremaining: {:?}", base.log, out.log, out.remaining);
        check_c11(&prog, &calls, &out, &base.log)
    } else {
        let out = real_run(&prog, Mode::Run, &opts);
        println!("trace: {:?}", out.log);
        let mut f = check_c02(&prog, &out, true);
        if sub == "c03rt" {
            f.extend(check_order(&prog, &out));
        }
        f
    };
    if findings.is_empty() {
        println!("no violation");
        0
    } else {
        for (p, k, d) in &findings {
            println!("VIOLATION reproduced: {p}/{k}: {d}");
        }
        1
    }
}
