//! Event programs on the generic `Runtime<App>`: generator, exact reference model and the real
//! executor with its observers. Shared by the monitors of C02, C03 (runtime level), C10 and C11.

use des::prelude::*;
use serde::{Deserialize, Serialize};
use std::cell::RefCell;
use std::collections::{BTreeMap, VecDeque};
use std::panic::{catch_unwind, AssertUnwindSafe};
use std::rc::Rc;
use vcommon::Rng;

pub const NS: &[usize] = &[1, 2, 3, 7, 10, 32, 1024, 1028];
pub const TS: &[u64] = &[1, 2, 7, 1_000, 2_500_000, 1_000_000_000, 3_000_000_000, 3_600_000_000_000];

pub fn st(ns: u64) -> SimTime {
    SimTime::from_duration(Duration::from_nanos(ns))
}

pub fn ns_of(t: SimTime) -> u64 {
    t.as_nanos() as u64
}

// -------------------------------------------------------------------------------------------------
// programs
// -------------------------------------------------------------------------------------------------

#[derive(Debug, Clone, Serialize, Deserialize, PartialEq)]
pub struct Child {
    pub delay_ns: u64,
    pub id: usize,
    /// schedule with `add_event_in(delay)` instead of `add_event(now + delay)`
    pub relative: bool,
}

#[derive(Debug, Clone, Default, Serialize, Deserialize, PartialEq)]
pub struct Node {
    pub children: Vec<Child>,
    /// try `add_event(now - delta)` from the handler; it must be rejected
    pub past_attempt: Option<u64>,
}

#[derive(Debug, Clone, Serialize, Deserialize, PartialEq)]
pub struct Root {
    pub time_ns: u64,
    pub id: usize,
    /// true: scheduled from `at_sim_start`; false: scheduled on the built runtime before `run`
    pub at_start: bool,
}

#[derive(Debug, Clone, Serialize, Deserialize, PartialEq)]
pub struct Program {
    pub start_ns: u64,
    pub n: usize,
    pub t_ns: u64,
    pub roots: Vec<Root>,
    pub nodes: Vec<Node>,
}

#[derive(Debug, Clone, Serialize, Deserialize, PartialEq)]
pub enum Step {
    /// `dispatch_n_events(k)`
    N(usize),
    /// `dispatch_events_until(t)`
    Until(u64),
    /// external `add_event` while the runtime is paused; the event is program node `id`
    Ext { time_ns: u64, id: usize },
}

#[derive(Debug, Clone, Serialize, Deserialize, PartialEq)]
pub enum LTree {
    Count(usize),
    Time(u64),
    And(Box<LTree>, Box<LTree>),
    Or(Box<LTree>, Box<LTree>),
}

impl LTree {
    /// independent evaluator: "stop before the event that would be number `itr` at `time`"
    pub fn applies(&self, itr: usize, time: u64) -> bool {
        match self {
            LTree::Count(n) => itr > *n,
            LTree::Time(t) => time > *t,
            LTree::And(a, b) => a.applies(itr, time) && b.applies(itr, time),
            LTree::Or(a, b) => a.applies(itr, time) || b.applies(itr, time),
        }
    }

    pub fn to_des(&self) -> des::runtime::RuntimeLimit {
        use des::runtime::RuntimeLimit as L;
        match self {
            LTree::Count(n) => L::EventCount(*n),
            LTree::Time(t) => L::SimTime(st(*t)),
            LTree::And(a, b) => L::CombinedAnd(Box::new(a.to_des()), Box::new(b.to_des())),
            LTree::Or(a, b) => L::CombinedOr(Box::new(a.to_des()), Box::new(b.to_des())),
        }
    }
}

/// How a limit is handed to the builder; several calls combine with "or" (as documented).
#[derive(Debug, Clone, Serialize, Deserialize, PartialEq)]
pub enum LimitCall {
    MaxItr(usize),
    MaxTime(u64),
    Limit(LTree),
}

impl LimitCall {
    pub fn tree(&self) -> LTree {
        match self {
            LimitCall::MaxItr(n) => LTree::Count(*n),
            LimitCall::MaxTime(t) => LTree::Time(*t),
            LimitCall::Limit(t) => t.clone(),
        }
    }
}

pub fn combined(calls: &[LimitCall]) -> Option<LTree> {
    let mut it = calls.iter();
    let mut acc = it.next()?.tree();
    for c in it {
        acc = LTree::Or(Box::new(acc), Box::new(c.tree()));
    }
    Some(acc)
}

#[derive(Debug, Clone, Copy, PartialEq, Eq, Serialize, Deserialize)]
pub struct Rec {
    pub id: usize,
    pub sched_ns: u64,
    pub now_ns: u64,
}

// -------------------------------------------------------------------------------------------------
// generator
// -------------------------------------------------------------------------------------------------

#[derive(Debug, Clone, Copy)]
pub struct GenOpts {
    pub max_events: usize,
    pub tie_heavy: bool,
    pub past_attempts: bool,
    pub nonzero_start: bool,
    /// only small bucket counts (structure walk after every event is affordable)
    pub small_n: bool,
}

fn pick_delay(rng: &mut Rng, n: usize, t: u64, tie_heavy: bool, common: &[u64]) -> u64 {
    let year = t.saturating_mul(n as u64);
    let w: [u64; 9] = if tie_heavy { [30, 4, 6, 8, 6, 4, 6, 30, 6] } else { [12, 6, 10, 14, 8, 6, 24, 12, 8] };
    match rng.weighted(&w) {
        0 => 0,
        1 => 1,
        2 => (t + rng.below(3)).saturating_sub(1),
        3 => t * (1 + rng.below(2 * n as u64 + 2)),
        4 => (year + rng.below(3)).saturating_sub(1),
        5 => year * (2 + rng.below(3)),
        6 => rng.below(3 * year + 1),
        // one of a few delays shared by the whole program: produces equal timestamps
        7 => *rng.pick(common),
        _ => t * rng.below(4) + rng.below(2),
    }
}

pub fn gen_program(rng: &mut Rng, o: GenOpts) -> Program {
    let n = if o.small_n { *rng.pick(&[1usize, 2, 3, 7, 10, 32]) } else { *rng.pick(NS) };
    let t = *rng.pick(TS);
    let year = t.saturating_mul(n as u64);
    let start_ns = if o.nonzero_start && rng.chance(2, 3) {
        // the calendar queue starts scanning at zero: keep the number of buckets before the start bounded
        // the last two are late in a long run (10^7 s and 4*10^8 s plus a few ns): nanosecond timestamps there are
        // not representable in f64
        let cands =
            [1u64, 7 * t, year, 3 * year + 1, 100_000 * t, 10_000_000_000, 1_000_000_000_000_000, 10_000_000_000_000_001, 400_000_000_000_000_003];
        let ok: Vec<u64> = cands.iter().copied().filter(|s| s / t <= 1_000_000).collect();
        *rng.pick(&ok)
    } else {
        0
    };
    let total = 1 + rng.usize_below(o.max_events);
    let common: Vec<u64> = (0..3).map(|_| t * rng.below(2 * n as u64 + 3) + rng.below(2) * (t / 2)).collect();
    let mut nodes: Vec<Node> = (0..total).map(|_| Node::default()).collect();
    let mut roots = Vec::new();
    let n_roots = 1 + rng.usize_below(total.min(if o.tie_heavy { 12 } else { 6 }));
    // node ids are handed out in creation order; node i > n_roots gets a parent among 0..i
    for id in 0..total {
        if id < n_roots {
            let time_ns = start_ns + if rng.chance(1, 4) { 0 } else { pick_delay(rng, n, t, o.tie_heavy, &common) };
            roots.push(Root { time_ns, id, at_start: rng.chance(1, 2) });
        } else {
            let parent = if rng.chance(1, 3) { id - 1 } else { rng.usize_below(id) };
            if nodes[parent].children.len() >= 5 {
                // keep the branching bounded: chain it below the previous node instead
                let p2 = id - 1;
                let delay_ns = pick_delay(rng, n, t, o.tie_heavy, &common);
                nodes[p2].children.push(Child { delay_ns, id, relative: rng.chance(1, 3) });
            } else {
                let delay_ns = pick_delay(rng, n, t, o.tie_heavy, &common);
                nodes[parent].children.push(Child { delay_ns, id, relative: rng.chance(1, 3) });
            }
        }
    }
    if o.past_attempts {
        for node in nodes.iter_mut() {
            if rng.chance(1, 25) {
                node.past_attempt = Some(match rng.below(4) {
                    0 => 1,
                    1 => t,
                    2 => 1 + rng.below(year + 1),
                    _ => u64::MAX, // "as far back as possible": clamps to the time zero / start time - 1
                });
            }
        }
    }
    Program { start_ns, n, t_ns: t, roots, nodes }
}

// -------------------------------------------------------------------------------------------------
// reference model: exact order (rule of C03), step semantics (C10), pending set (C11)
// -------------------------------------------------------------------------------------------------

#[derive(Debug, Clone)]
pub struct Model<'a> {
    prog: &'a Program,
    pub current: u64,
    zero: VecDeque<(usize, u64)>,
    future: BTreeMap<u64, VecDeque<usize>>,
    pub handled: Vec<Rec>,
    pub last_time: u64,
    /// BinaryHeap backend only (tie order is not claimed there): the observed dispatch order
    /// chooses among the events of the smallest timestamp
    pub guide: Option<Vec<usize>>,
}

impl<'a> Model<'a> {
    pub fn new(prog: &'a Program) -> Self {
        Model {
            prog,
            // before the first dispatch the "current instant" is time zero
            current: 0,
            zero: VecDeque::new(),
            future: BTreeMap::new(),
            handled: Vec::new(),
            last_time: prog.start_ns,
            guide: None,
        }
    }

    /// position of the guided choice in the candidate lists, if it is a legal choice
    fn guided(&mut self) -> Option<(usize, u64)> {
        let want = *self.guide.as_ref()?.get(self.handled.len())?;
        if let Some(pos) = self.zero.iter().position(|(id, _)| *id == want) {
            let (id, t) = self.zero.remove(pos)?;
            return Some((id, t));
        }
        let min = if self.zero.is_empty() { *self.future.keys().next()? } else { self.current };
        let list = self.future.get_mut(&min)?;
        let pos = list.iter().position(|id| *id == want)?;
        list.remove(pos);
        if list.is_empty() {
            self.future.remove(&min);
        }
        if self.zero.is_empty() {
            self.current = min;
        }
        Some((want, min))
    }

    pub fn add(&mut self, time: u64, id: usize) {
        if time == self.current {
            self.zero.push_back((id, time));
        } else {
            self.future.entry(time).or_default().push_back(id);
        }
    }

    pub fn add_roots(&mut self, at_start: bool) {
        for r in self.prog.roots.iter().filter(|r| r.at_start == at_start) {
            self.add(r.time_ns, r.id);
        }
    }

    pub fn pending(&self) -> usize {
        self.zero.len() + self.future.values().map(VecDeque::len).sum::<usize>()
    }

    pub fn pending_set(&self) -> Vec<(usize, u64)> {
        let mut v: Vec<(usize, u64)> = self.zero.iter().copied().collect();
        for (t, l) in &self.future {
            v.extend(l.iter().map(|id| (*id, *t)));
        }
        v.sort_unstable();
        v
    }

    pub fn peek_time(&self) -> Option<u64> {
        if !self.zero.is_empty() {
            Some(self.current)
        } else {
            self.future.keys().next().copied()
        }
    }

    pub fn dispatch_one(&mut self) -> bool {
        let (id, time) = if let Some(e) = self.guided() {
            e
        } else if let Some(e) = self.zero.pop_front() {
            e
        } else if let Some(mut entry) = self.future.first_entry() {
            let time = *entry.key();
            let id = entry.get_mut().pop_front().expect("non-empty list");
            if entry.get().is_empty() {
                entry.remove();
            }
            self.current = time;
            (id, time)
        } else {
            return false;
        };
        self.last_time = time;
        self.handled.push(Rec { id, sched_ns: time, now_ns: time });
        let children = self.prog.nodes[id].children.clone();
        for c in children {
            self.add(time + c.delay_ns, c.id);
        }
        true
    }

    pub fn dispatch_all(&mut self) {
        while self.dispatch_one() {}
    }

    pub fn dispatch_n(&mut self, n: usize) -> usize {
        let mut k = 0;
        while k < n && self.dispatch_one() {
            k += 1;
        }
        k
    }

    pub fn dispatch_until(&mut self, t: u64) -> usize {
        let mut k = 0;
        while self.peek_time().is_some_and(|p| p <= t) {
            self.dispatch_one();
            k += 1;
        }
        k
    }
}

/// Unlimited reference trace of a program (roots added before the run first, then the start roots).
pub fn model_trace(prog: &Program) -> Vec<Rec> {
    let mut m = Model::new(prog);
    m.add_roots(false);
    m.add_roots(true);
    m.dispatch_all();
    m.handled
}

// -------------------------------------------------------------------------------------------------
// the real application
// -------------------------------------------------------------------------------------------------

#[derive(Debug, Clone, Serialize, Deserialize)]
pub struct Problem {
    pub kind: String,
    pub detail: String,
}

thread_local! {
    /// structural bound on the bucket steps one dispatch (peek + fetch) may take, see `scan_budget`
    static SCAN_BUDGET: std::cell::Cell<Option<u64>> = const { std::cell::Cell::new(None) };
}

/// Arms the scan-step hook of the calendar queue (H7) for the next dispatch: no correct scan can take more than
/// (distance to the latest timestamp of the program in buckets) + n steps; peek and fetch both scan.
fn arm_scan_budget() {
    #[cfg(feature = "cq")]
    if let Some(b) = SCAN_BUDGET.with(std::cell::Cell::get) {
        des_cqueue::verif::scan_reset(Some(b));
    }
}

fn scan_budget(prog: &Program, extra_horizon_ns: u64, default_queue: bool) -> u64 {
    let (n, t) = if default_queue { (1028u64, 2_500_000u64) } else { (prog.n as u64, prog.t_ns.max(1)) };
    let horizon = model_trace(prog).iter().map(|r| r.now_ns).max().unwrap_or(prog.start_ns).max(extra_horizon_ns).max(prog.start_ns);
    // one armed window covers at most: a peek, a fetch, and (at the end of a limited run) the drain of everything that
    // is left, whose scans add up to one pass over the horizon
    3 * (horizon / t + n) + 2 * prog.nodes.len() as u64 + 64
}

pub struct App {
    prog: Rc<Program>,
    pub log: Vec<Rec>,
    pub problems: Vec<Problem>,
    pub walk_every: usize,
    pub walks: u64,
    pub past_rejected: u64,
    pub adds_ok: u64,
    since_walk: usize,
}

#[derive(Debug)]
pub struct Ev {
    pub id: usize,
    pub sched_ns: u64,
    pub ghost: bool,
}

impl Application for App {
    type EventSet = Ev;
    type Lifecycle = AppLife;
}

pub struct AppLife;

impl EventLifecycle<App> for AppLife {
    fn at_sim_start(rt: &mut Runtime<App>) {
        let prog = rt.app.prog.clone();
        for r in prog.roots.iter().filter(|r| r.at_start) {
            // every second root through the relative entry point (delay measured from the start time)
            let start = prog.start_ns;
            schedule(rt, r.time_ns, r.id, r.id % 2 == 1, r.time_ns - start);
        }
    }
}

fn problem(rt: &mut Runtime<App>, kind: &str, detail: String) {
    if rt.app.problems.len() < 16 {
        rt.app.problems.push(Problem { kind: kind.to_string(), detail });
    }
}

/// `add_event` / `add_event_in` under catch_unwind: an add at or after the current time must succeed
fn schedule(rt: &mut Runtime<App>, time_ns: u64, id: usize, relative: bool, delay_ns: u64) {
    let ev = Ev { id, sched_ns: time_ns, ghost: false };
    let res = catch_unwind(AssertUnwindSafe(|| {
        if relative {
            rt.add_event_in(ev, Duration::from_nanos(delay_ns));
        } else {
            rt.add_event(ev, st(time_ns));
        }
    }));
    match res {
        Ok(()) => rt.app.adds_ok += 1,
        Err(p) => {
            let now = ns_of(SimTime::now());
            problem(
                rt,
                "add-rejected",
                format!("scheduling event {id} for {time_ns} ns at simulated time {now} ns panicked: {}", vcommon::panic_message(&p)),
            );
        }
    }
}

impl Event<App> for Ev {
    fn handle(self, rt: &mut Runtime<App>) {
        arm_scan_budget();
        let now = ns_of(SimTime::now());
        if self.ghost {
            problem(rt, "past-event-dispatched", format!("an event scheduled in the past (for {} ns) was dispatched at {now} ns", self.sched_ns));
            return;
        }
        rt.app.log.push(Rec { id: self.id, sched_ns: self.sched_ns, now_ns: now });
        if ns_of(rt.sim_time()) != now {
            problem(rt, "sim-time-mismatch", format!("Runtime::sim_time() differs from SimTime::now() in the handler of event {}", self.id));
        }
        let prog = rt.app.prog.clone();
        let node = &prog.nodes[self.id];
        for c in &node.children {
            schedule(rt, now + c.delay_ns, c.id, c.relative, c.delay_ns);
        }
        if let Some(delta) = node.past_attempt {
            let floor = 0u64;
            let target = now.saturating_sub(delta).max(floor);
            if target < now {
                let ev = Ev { id: usize::MAX, sched_ns: target, ghost: true };
                let res = catch_unwind(AssertUnwindSafe(|| rt.add_event(ev, st(target))));
                match res {
                    Err(_) => rt.app.past_rejected += 1,
                    Ok(()) => problem(
                        rt,
                        "past-add-accepted",
                        format!("add_event({target} ns) was accepted at simulated time {now} ns"),
                    ),
                }
            }
        }
        #[cfg(feature = "cq")]
        {
            rt.app.since_walk += 1;
            if rt.app.walk_every > 0 && rt.app.since_walk >= rt.app.walk_every {
                rt.app.since_walk = 0;
                rt.app.walks += 1;
                if let Err(e) = rt.verif_event_set_check() {
                    problem(rt, "event-set-structure", e);
                }
            }
        }
    }
}

// -------------------------------------------------------------------------------------------------
// clock observer (hook H4)
// -------------------------------------------------------------------------------------------------

#[derive(Debug, Default, Clone)]
pub struct ClockLog {
    pub writes: u64,
    pub backwards: Vec<(u64, u64)>,
}

thread_local! {
    static CLOCK: RefCell<ClockLog> = RefCell::new(ClockLog::default());
}

pub fn clock_observe_start() {
    CLOCK.with(|c| *c.borrow_mut() = ClockLog::default());
    des::verif::set_clock_observer(Some(Box::new(|w| {
        CLOCK.with(|c| {
            let mut c = c.borrow_mut();
            c.writes += 1;
            if w.new < w.prev && c.backwards.len() < 4 {
                c.backwards.push((ns_of(w.prev), ns_of(w.new)));
            }
        });
    })));
}

pub fn clock_observe_stop() -> ClockLog {
    des::verif::set_clock_observer(None);
    CLOCK.with(|c| c.borrow().clone())
}

// -------------------------------------------------------------------------------------------------
// real execution
// -------------------------------------------------------------------------------------------------

#[derive(Debug, Clone, Default, Serialize, Deserialize)]
pub struct StepObs {
    pub handled: usize,
    pub sim_time_ns: u64,
    pub remaining: usize,
    pub dispatched: usize,
}

#[derive(Debug, Default)]
pub struct Outcome {
    pub log: Vec<Rec>,
    pub problems: Vec<Problem>,
    pub end_time_ns: Option<u64>,
    pub event_count: Option<usize>,
    pub remaining: Vec<(usize, u64)>,
    pub remaining_ghosts: usize,
    pub panicked: Option<String>,
    pub steps: Vec<StepObs>,
    pub clock: ClockLog,
    pub now_after_build_ns: u64,
    pub pre_run_past_rejected: Option<bool>,
    pub pre_run_at_start_ok: Option<bool>,
    pub walks: u64,
    pub past_rejected: u64,
    pub adds_ok: u64,
    pub err: bool,
    /// add_event(sim_time() - 1 ns) attempts on the paused runtime that were rejected
    pub paused_past_rejected: u64,
}

pub enum Mode<'a> {
    Run,
    Limited(&'a [LimitCall]),
    Steps(&'a [Step]),
    /// limits configured through the builder, then driven through the stepping interface (steps, dispatch_all, finish)
    LimitedSteps(&'a [LimitCall], &'a [Step]),
}

pub struct RunOpts {
    pub walk_every: usize,
    /// before the run: try add_event(start - 1 ns) (must panic) and a probe at exactly start (must be accepted)
    pub pre_run_probes: bool,
    pub default_queue: bool,
    /// stepped runs: after every step try add_event(sim_time() - 1 ns), which must be rejected
    pub paused_past_probes: bool,
    /// stepped runs: call finish() right after the last step (no dispatch_all in between)
    pub finish_after_steps: bool,
}

pub fn real_run(prog: &Program, mode: Mode<'_>, opts: &RunOpts) -> Outcome {
    let prog_rc = Rc::new(prog.clone());
    let mut out = Outcome::default();
    let res = catch_unwind(AssertUnwindSafe(|| {
        let app = App {
            prog: prog_rc.clone(),
            log: Vec::new(),
            problems: Vec::new(),
            walk_every: opts.walk_every,
            walks: 0,
            past_rejected: 0,
            adds_ok: 0,
            since_walk: 0,
        };
        let mut b = Builder::seeded(1).quiet().start_time(st(prog.start_ns));
        #[cfg(feature = "cq")]
        if !opts.default_queue {
            b = b.cqueue_options(prog.n, Duration::from_nanos(prog.t_ns));
        }
        if let Mode::Limited(calls) | Mode::LimitedSteps(calls, _) = &mode {
            for c in calls.iter() {
                b = match c {
                    LimitCall::MaxItr(n) => b.max_itr(*n),
                    LimitCall::MaxTime(t) => b.max_time(st(*t)),
                    LimitCall::Limit(t) => b.limit(t.to_des()),
                };
            }
        }
        let mut rt = b.build(app);
        out.now_after_build_ns = ns_of(SimTime::now());
        let ext_horizon = match &mode {
            Mode::Steps(steps) | Mode::LimitedSteps(_, steps) => steps.iter().map(|s| if let Step::Ext { time_ns, .. } = s { *time_ns } else { 0 }).max().unwrap_or(0),
            _ => 0,
        };
        SCAN_BUDGET.with(|b| b.set(Some(scan_budget(prog, ext_horizon, opts.default_queue))));
        arm_scan_budget();
        clock_observe_start();

        if opts.pre_run_probes && prog.start_ns > 0 {
            let t = prog.start_ns - 1;
            let r = catch_unwind(AssertUnwindSafe(|| rt.add_event(Ev { id: usize::MAX, sched_ns: t, ghost: true }, st(t))));
            out.pre_run_past_rejected = Some(r.is_err());
        }
        for r in prog.roots.iter().filter(|r| !r.at_start) {
            schedule(&mut rt, r.time_ns, r.id, r.id % 2 == 1, r.time_ns - prog.start_ns);
        }

        let result = match &mode {
            Mode::Run | Mode::Limited(_) => rt.run(),
            Mode::Steps(steps) | Mode::LimitedSteps(_, steps) => {
                rt.start();
                for s in steps.iter() {
                    arm_scan_budget();
                    let before = rt.app.log.len();
                    match s {
                        Step::N(k) => {
                            rt.dispatch_n_events(*k);
                        }
                        Step::Until(t) => {
                            rt.dispatch_events_until(st(*t));
                        }
                        Step::Ext { time_ns, id } => {
                            let ev = Ev { id: *id, sched_ns: *time_ns, ghost: false };
                            let r = catch_unwind(AssertUnwindSafe(|| rt.add_event(ev, st(*time_ns))));
                            if let Err(p) = r {
                                let now = ns_of(rt.sim_time());
                                problem(
                                    &mut rt,
                                    "ext-add-rejected",
                                    format!("paused at {now} ns: add_event({time_ns} ns) panicked: {}", vcommon::panic_message(&p)),
                                );
                            }
                        }
                    }
                    if opts.paused_past_probes && !matches!(s, Step::Ext { .. }) {
                        let now = ns_of(rt.sim_time());
                        if now > 0 {
                            let t = now - 1;
                            let r = catch_unwind(AssertUnwindSafe(|| rt.add_event(Ev { id: usize::MAX, sched_ns: t, ghost: true }, st(t))));
                            if r.is_ok() {
                                problem(&mut rt, "past-add-accepted", format!("paused, sim_time() = {now} ns: add_event({t} ns) was accepted"));
                            } else {
                                out.paused_past_rejected += 1;
                            }
                        }
                    }
                    out.steps.push(StepObs {
                        handled: rt.app.log.len() - before,
                        sim_time_ns: ns_of(rt.sim_time()),
                        remaining: rt.num_events_remaining(),
                        dispatched: rt.num_events_dispatched(),
                    });
                }
                arm_scan_budget();
                if !opts.finish_after_steps {
                    rt.dispatch_all();
                }
                rt.finish()
            }
        };
        out.clock = clock_observe_stop();
        SCAN_BUDGET.with(|b| b.set(None));
        #[cfg(feature = "cq")]
        des_cqueue::verif::scan_reset(None);
        match result {
            Ok((app, time, profiler)) => {
                out.log = app.log;
                out.problems = app.problems;
                out.walks = app.walks;
                out.past_rejected = app.past_rejected;
                out.adds_ok = app.adds_ok;
                out.end_time_ns = Some(ns_of(time));
                out.event_count = Some(profiler.event_count);
                for (ev, t) in profiler.remaining {
                    if ev.ghost {
                        out.remaining_ghosts += 1;
                    } else {
                        out.remaining.push((ev.id, ns_of(t)));
                    }
                }
                out.remaining.sort_unstable();
            }
            Err(_) => out.err = true,
        }
    }));
    if let Err(p) = res {
        SCAN_BUDGET.with(|b| b.set(None));
        #[cfg(feature = "cq")]
        des_cqueue::verif::scan_reset(None);
        let _ = clock_observe_stop();
        out.panicked = Some(vcommon::panic_message(&p));
    }
    out
}
