//! C05 — timers fire exactly at their deadline and are never lost.
//!
//! Async modules execute generated *timer scripts* (one per task); after every await the task logs
//! `(module, task, step, SimTime::now(), outcome)`. A reference interpreter computes, in virtual
//! time, when each step must complete and with which outcome; the logs must be equal. Hook H5
//! reports the timer slots and the scheduled wake-up of a module after each of its events.

use des::prelude::*;
use des::time::{interval, sleep, sleep_until, timeout, MissedTickBehavior};
use serde::{Deserialize, Serialize};
use serde_json::{json, Value};
use std::cell::RefCell;
use std::collections::HashMap;
use std::pin::pin;
use tokio::sync::mpsc;
use vcommon::{Args, Hasher64, Report, Rng};

const FEED: u16 = 21;
const MS: u64 = 1_000_000;

#[derive(Debug, Clone, Copy, Serialize, Deserialize, PartialEq)]
pub enum Inner {
    Sleep(u64),
    /// completes on its second poll within the same instant
    Yield,
    Never,
}

#[derive(Debug, Clone, Copy, Serialize, Deserialize, PartialEq)]
pub enum Behavior {
    Burst,
    Delay,
    Skip,
}

#[derive(Debug, Clone, Serialize, Deserialize, PartialEq)]
pub enum Step {
    Sleep(u64),
    /// `sleep(Duration::MAX)` can only be used as a loser
    SleepUntil(u64),
    Timeout { d: u64, inner: Inner },
    /// `select!{ biased; sleep(a), sleep(b) }`; u64::MAX = far future
    Select { a: u64, b: u64 },
    /// create `sleep(d)`, poll it once, drop it
    PollDrop(u64),
    /// two `sleep(d)` of the same task with the same deadline, both polled once (the first registers first); the first
    /// is dropped, the second is awaited
    TwinDrop(u64),
    /// a disarmed timer (`sleep(Duration::MAX)`), polled once, then armed with reset to the absolute instant `t_abs`
    /// (from a small set, so that several tasks of a module arm theirs to the same deadline); with `give_up` the task
    /// waits only half of the remaining time and drops it
    FarArmed { t_abs: u64, give_up: bool },
    /// pinned `sleep(d1)`, polled once, then reset to now + d2 and awaited
    Reset { d1: u64, d2: u64 },
    /// pinned `sleep(d1)`, polled once; the task then waits `wait >= d1` for another timer, so the deadline is
    /// reached without the sleep being polled; then reset to now + d2 and awaited
    ResetLate { d1: u64, wait: u64, d2: u64 },
    IntervalNew { period: u64, behavior: Behavior },
    /// `interval_at(now - back + fwd, period)`: the first tick is due in the past, now or later
    IntervalAt { back: u64, fwd: u64, period: u64, behavior: Behavior },
    /// `Interval::reset()`: the next tick is due one period from now, whatever was missed
    IntervalReset,
    Tick,
    /// awaits the next item of this task's channel; the k-th item is fed at the k-th feed time
    Recv,
}

#[derive(Debug, Clone, Serialize, Deserialize, PartialEq)]
pub struct Task {
    pub steps: Vec<Step>,
    /// absolute feed instants (sorted) for the Recv steps
    pub feeds: Vec<u64>,
    /// the script uses the other entry points of the timer API: sleep(d) as sleep_until(now + d), timeout(d, f) as
    /// timeout_at(now + d, f), interval(p) as interval_at(now, p)
    #[serde(default)]
    pub alt_api: bool,
}

/// the module is shut down at `shutdown_at` (from a message handler) and restarted at `restart_at`; the second
/// incarnation runs `tasks` (logged as task 100 + index). Both instants lie a third of a millisecond off the 0.1 ms
/// grid of all timer deadlines, so nothing completes exactly at them.
#[derive(Debug, Clone, Serialize, Deserialize, PartialEq)]
pub struct Restart {
    pub shutdown_at: u64,
    pub restart_at: u64,
    pub tasks: Vec<Task>,
    /// the handler that requests the shutdown first arms a timer of this length (a task that is cancelled by the
    /// shutdown): a deadline of the old incarnation that may lie after the restart
    #[serde(default)]
    pub watchdog_ns: Option<u64>,
}

#[derive(Debug, Clone, Serialize, Deserialize, PartialEq)]
pub struct Case {
    /// tasks per module
    pub modules: Vec<Vec<Task>>,
    /// per module (missing = no restart)
    #[serde(default)]
    pub restarts: Vec<Option<Restart>>,
    /// unrelated messages a module schedules for itself at start-up: (module, arrival instant, swallowed by a
    /// processing element of the module instead of reaching the handler). Most arrival instants coincide with a
    /// timer deadline of the module; none of this may move a completion.
    #[serde(default)]
    pub noise: Vec<(usize, u64, bool)>,
}

impl Case {
    fn restart_of(&self, module: usize) -> Option<&Restart> {
        self.restarts.get(module).and_then(Option::as_ref)
    }
}

#[derive(Debug, Clone, Copy, PartialEq, Eq, Serialize, Deserialize)]
pub struct LogRec {
    pub module: usize,
    pub task: usize,
    pub step: usize,
    pub t: u64,
    /// step specific: select branch, timeout ok(1)/elapsed(0), tick instant, ...
    pub outcome: u64,
}

#[derive(Debug, Clone)]
pub struct SlotObs {
    pub module: String,
    pub now: u64,
    pub earliest_live: Option<u64>,
    pub next_wakeup: u64,
    pub empty_in_front: bool,
}

thread_local! {
    static LOG: RefCell<Vec<LogRec>> = const { RefCell::new(Vec::new()) };
    static SLOTS: RefCell<Vec<SlotObs>> = const { RefCell::new(Vec::new()) };
    static SLOT_STATS: RefCell<(u64, u64)> = const { RefCell::new((0, 0)) };
}

fn now_ns() -> u64 {
    SimTime::now().as_nanos() as u64
}

fn dur(ns: u64) -> Duration {
    if ns == u64::MAX {
        Duration::MAX
    } else {
        Duration::from_nanos(ns)
    }
}

fn log(module: usize, task: usize, step: usize, outcome: u64) {
    LOG.with(|l| l.borrow_mut().push(LogRec { module, task, step, t: now_ns(), outcome }));
}

async fn run_script(module: usize, task: usize, steps: Vec<Step>, alt: bool, mut rx: mpsc::Receiver<()>) {
    let mut iv: Option<des::time::Interval> = None;
    for (i, s) in steps.iter().enumerate() {
        let outcome: u64 = match s {
            Step::Sleep(d) => {
                if alt {
                    sleep_until(SimTime::now() + dur(*d)).await;
                } else {
                    sleep(dur(*d)).await;
                }
                0
            }
            Step::SleepUntil(t) => {
                sleep_until(SimTime::from_duration(Duration::from_nanos(*t))).await;
                0
            }
            Step::Timeout { d, inner } => {
                let r = if alt {
                    let at = SimTime::now() + dur(*d);
                    match inner {
                        Inner::Sleep(x) => des::time::timeout_at(at, sleep(dur(*x))).await.is_ok(),
                        Inner::Yield => des::time::timeout_at(at, tokio::task::yield_now()).await.is_ok(),
                        Inner::Never => des::time::timeout_at(at, std::future::pending::<()>()).await.is_ok(),
                    }
                } else {
                    match inner {
                        Inner::Sleep(x) => timeout(dur(*d), sleep(dur(*x))).await.is_ok(),
                        Inner::Yield => timeout(dur(*d), tokio::task::yield_now()).await.is_ok(),
                        Inner::Never => timeout(dur(*d), std::future::pending::<()>()).await.is_ok(),
                    }
                };
                u64::from(r)
            }
            Step::Select { a, b } => {
                tokio::select! {
                    biased;
                    () = sleep(dur(*a)) => 0,
                    () = sleep(dur(*b)) => 1,
                }
            }
            Step::PollDrop(d) => {
                let s = pin!(sleep(dur(*d)));
                let _ = futures::poll!(s);
                0
            }
            Step::FarArmed { t_abs, give_up } => {
                let mut far = pin!(sleep(Duration::MAX));
                let _ = futures::poll!(far.as_mut());
                far.as_mut().reset(SimTime::from_duration(Duration::from_nanos(*t_abs)));
                if *give_up {
                    let half = t_abs.saturating_sub(now_ns()) / 2;
                    tokio::select! {
                        biased;
                        () = sleep(dur(half)) => 0,
                        () = &mut far => 1,
                    }
                } else {
                    far.await;
                    0
                }
            }
            Step::TwinDrop(d) => {
                let mut first = Box::pin(sleep(dur(*d)));
                let mut second = pin!(sleep(dur(*d)));
                let _ = futures::poll!(first.as_mut());
                let _ = futures::poll!(second.as_mut());
                drop(first);
                second.await;
                0
            }
            Step::Reset { d1, d2 } => {
                let mut s = pin!(sleep(dur(*d1)));
                let _ = futures::poll!(s.as_mut());
                let target = SimTime::now() + dur(*d2);
                s.as_mut().reset(target);
                // the accessors of the handle agree with what was asked for (900+: they do not)
                let mut bad = 0;
                if s.deadline() != target {
                    bad = 901;
                }
                if s.is_elapsed() != (*d2 == 0) {
                    bad = 902;
                }
                s.as_mut().await;
                if !s.is_elapsed() {
                    bad = 903;
                }
                bad
            }
            Step::ResetLate { d1, wait, d2 } => {
                let mut s = pin!(sleep(dur(*d1)));
                let _ = futures::poll!(s.as_mut());
                sleep(dur(*wait)).await;
                s.as_mut().reset(SimTime::now() + dur(*d2));
                s.await;
                0
            }
            Step::IntervalAt { back, fwd, period, behavior } => {
                let start = (now_ns().saturating_sub(*back)).saturating_add(*fwd);
                let mut v = des::time::interval_at(SimTime::from_duration(Duration::from_nanos(start)), dur(*period));
                v.set_missed_tick_behavior(match behavior {
                    Behavior::Burst => MissedTickBehavior::Burst,
                    Behavior::Delay => MissedTickBehavior::Delay,
                    Behavior::Skip => MissedTickBehavior::Skip,
                });
                let ok = v.period() == dur(*period) && v.missed_tick_behavior() == match behavior {
                    Behavior::Burst => MissedTickBehavior::Burst,
                    Behavior::Delay => MissedTickBehavior::Delay,
                    Behavior::Skip => MissedTickBehavior::Skip,
                };
                iv = Some(v);
                if ok { 0 } else { 904 }
            }
            Step::IntervalReset => {
                iv.as_mut().expect("script: interval exists").reset();
                0
            }
            Step::IntervalNew { period, behavior } => {
                let mut v = if alt { des::time::interval_at(SimTime::now(), dur(*period)) } else { interval(dur(*period)) };
                v.set_missed_tick_behavior(match behavior {
                    Behavior::Burst => MissedTickBehavior::Burst,
                    Behavior::Delay => MissedTickBehavior::Delay,
                    Behavior::Skip => MissedTickBehavior::Skip,
                });
                iv = Some(v);
                0
            }
            Step::Tick => {
                let t = iv.as_mut().expect("script: interval exists").tick().await;
                t.as_nanos() as u64
            }
            Step::Recv => {
                let r = rx.recv().await;
                u64::from(r.is_some())
            }
        };
        log(module, task, i, outcome);
    }
}

struct Scripted {
    noise: Vec<(u64, bool)>,
    idx: usize,
    tasks: Vec<Task>,
    senders: Vec<mpsc::Sender<()>>,
    restart: Option<Restart>,
    incarnation: u32,
}

const CTRL: u16 = 52;
const NOISE: u16 = 53;
const NOISE_SWALLOWED: u16 = 54;

/// consumes NOISE_SWALLOWED messages: the module's handler never runs in that event
struct Swallow;
impl des::net::processing::ProcessingElement for Swallow {
    fn incoming(&mut self, msg: Message) -> Option<Message> {
        if msg.header().kind == NOISE_SWALLOWED {
            None
        } else {
            Some(msg)
        }
    }
}

impl Module for Scripted {
    fn stack(&self, mut stack: des::net::processing::ProcessingStack) -> des::net::processing::ProcessingStack {
        if self.noise.iter().any(|n| n.1) {
            stack.append(Swallow);
        }
        stack
    }

    fn reset(&mut self) {
        self.incarnation += 1;
    }

    fn at_sim_start(&mut self, _: usize) {
        self.senders.clear();
        if self.incarnation > 0 {
            // second incarnation: fresh scripts, no feeds
            let tasks = self.restart.as_ref().map(|r| r.tasks.clone()).unwrap_or_default();
            for (ti, task) in tasks.iter().enumerate() {
                let (tx, rx) = mpsc::channel(1);
                self.senders.push(tx);
                tokio::spawn(run_script(self.idx, 100 + ti, task.steps.clone(), task.alt_api, rx));
            }
            return;
        }
        if let Some(r) = &self.restart {
            schedule_at(Message::default().kind(CTRL), SimTime::from_duration(Duration::from_nanos(r.shutdown_at)));
        }
        // scheduled before any timer is registered: these events sit in front of the wake-up events of their instant
        for (t, swallowed) in &self.noise {
            schedule_at(Message::default().kind(if *swallowed { NOISE_SWALLOWED } else { NOISE }), SimTime::from_duration(Duration::from_nanos(*t)));
        }
        for (ti, task) in self.tasks.iter().enumerate() {
            let (tx, rx) = mpsc::channel(64);
            self.senders.push(tx);
            for f in &task.feeds {
                schedule_at(Message::default().kind(FEED).id(ti as u16), SimTime::from_duration(Duration::from_nanos(*f)));
            }
            let h = tokio::spawn(run_script(self.idx, ti, task.steps.clone(), task.alt_api, rx));
            // tasks of a module that is shut down on purpose are cancelled, not joined
            if self.restart.is_none() {
                current().join(h);
            }
        }
    }

    fn handle_message(&mut self, msg: Message) {
        if msg.header().kind == FEED {
            if let Some(tx) = self.senders.get(msg.header().id as usize) {
                let _ = tx.try_send(());
            }
        } else if msg.header().kind == CTRL {
            if let Some(r) = &self.restart {
                if let Some(d) = r.watchdog_ns {
                    tokio::spawn(async move {
                        sleep(Duration::from_nanos(d)).await;
                    });
                }
                current().shutdow_and_restart_at(SimTime::from_duration(Duration::from_nanos(r.restart_at)));
            }
        }
    }
}

// -------------------------------------------------------------------------------------------------
// reference interpreter (virtual time)
// -------------------------------------------------------------------------------------------------

pub fn reference(case: &Case) -> Vec<LogRec> {
    let mut out = Vec::new();
    for (mi, tasks) in case.modules.iter().enumerate() {
        let restart = case.restart_of(mi);
        for (ti, task) in tasks.iter().enumerate() {
            let all = interpret(mi, ti, task, 0);
            match restart {
                // first incarnation: everything that completes before the shutdown, nothing after it
                Some(r) => out.extend(all.into_iter().take_while(|e| e.t < r.shutdown_at)),
                None => out.extend(all),
            }
        }
        if let Some(r) = restart {
            for (ti, task) in r.tasks.iter().enumerate() {
                out.extend(interpret(mi, 100 + ti, task, r.restart_at));
            }
        }
    }
    out
}

/// completion instant and outcome of every step of one script started at `start`
fn interpret(mi: usize, ti: usize, task: &Task, start: u64) -> Vec<LogRec> {
    let mut out = Vec::new();
    {
        {
            let mut now: u64 = start;
            let mut feeds = task.feeds.iter();
            // interval state: (next deadline, period, behavior)
            let mut iv: Option<(u64, u64, Behavior)> = None;
            for (si, s) in task.steps.iter().enumerate() {
                let outcome = match s {
                    Step::Sleep(d) => {
                        now += d;
                        0
                    }
                    Step::SleepUntil(t) => {
                        now = now.max(*t);
                        0
                    }
                    Step::Timeout { d, inner } => {
                        let inner_done: Option<u64> = match inner {
                            Inner::Sleep(x) => now.checked_add(*x),
                            Inner::Yield => Some(now),
                            Inner::Never => None,
                        };
                        let deadline = now.saturating_add(*d);
                        match inner_done {
                            Some(c) if c <= deadline => {
                                now = c;
                                1
                            }
                            _ => {
                                now = deadline;
                                0
                            }
                        }
                    }
                    Step::Select { a, b } => {
                        let (d, br) = if a <= b { (*a, 0) } else { (*b, 1) };
                        now += d;
                        br
                    }
                    Step::PollDrop(_) => 0,
                    Step::TwinDrop(d) => {
                        now += d;
                        0
                    }
                    Step::FarArmed { t_abs, give_up } => {
                        if *give_up {
                            now += t_abs.saturating_sub(now) / 2;
                        } else {
                            now = now.max(*t_abs);
                        }
                        0
                    }
                    Step::Reset { d2, .. } => {
                        now += d2;
                        0
                    }
                    Step::ResetLate { wait, d2, .. } => {
                        now += wait + d2;
                        0
                    }
                    Step::IntervalNew { period, behavior } => {
                        iv = Some((now, *period, *behavior));
                        0
                    }
                    Step::IntervalAt { back, fwd, period, behavior } => {
                        iv = Some((now.saturating_sub(*back).saturating_add(*fwd), *period, *behavior));
                        0
                    }
                    Step::IntervalReset => {
                        let (_, period, behavior) = iv.expect("script: interval exists");
                        iv = Some((now + period, period, behavior));
                        0
                    }
                    Step::Tick => {
                        let (deadline, period, behavior) = iv.expect("script: interval exists");
                        let c = now.max(deadline);
                        let next = if c > deadline + 5 * MS {
                            match behavior {
                                Behavior::Burst => deadline + period,
                                Behavior::Delay => c + period,
                                Behavior::Skip => c + period - ((c - deadline) % period),
                            }
                        } else {
                            deadline + period
                        };
                        iv = Some((next, period, behavior));
                        now = c;
                        deadline
                    }
                    Step::Recv => {
                        let f = *feeds.next().expect("script: feed for every recv");
                        now = now.max(f);
                        1
                    }
                };
                out.push(LogRec { module: mi, task: ti, step: si, t: now, outcome });
            }
        }
    }
    out
}

pub struct Observed {
    pub log: Vec<LogRec>,
    pub slots: Vec<SlotObs>,
    pub slot_events: u64,
    pub empty_front_slots: u64,
    pub result: Result<u64, String>,
    pub panicked: Option<String>,
}

pub fn execute(case: &Case) -> Observed {
    LOG.with(|l| l.borrow_mut().clear());
    SLOTS.with(|l| l.borrow_mut().clear());
    SLOT_STATS.with(|s| *s.borrow_mut() = (0, 0));
    des::verif::set_timer_observer(Some(Box::new(|st| {
        // saturating conversion: far-future timers sit at SimTime::MAX
        let ns = |t: SimTime| u64::try_from(t.as_nanos()).unwrap_or(u64::MAX);
        let earliest_live = st.slots.iter().filter(|(_, n)| *n > 0).map(|(t, _)| ns(*t)).min();
        let first_live_pos = st.slots.iter().position(|(_, n)| *n > 0);
        let empty_in_front = first_live_pos.is_some_and(|p| p > 0);
        SLOT_STATS.with(|s| {
            let mut s = s.borrow_mut();
            s.0 += 1;
            if empty_in_front {
                s.1 += 1;
            }
        });
        let next_wakeup = ns(st.next_wakeup);
        // a waiting timer needs a wake-up event at or before its deadline
        // (and not before the present: a wake-up time in the past means that none is pending any more)
        let bad = earliest_live.is_some_and(|e| next_wakeup > e || next_wakeup < ns(st.now));
        if bad {
            SLOTS.with(|l| {
                let mut l = l.borrow_mut();
                if l.len() < 4 {
                    l.push(SlotObs { module: st.module.clone(), now: ns(st.now), earliest_live, next_wakeup, empty_in_front });
                }
            });
        }
    })));
    let res = vcommon::catch(|| {
        let mut sim = Sim::new(());
        for (mi, tasks) in case.modules.iter().enumerate() {
            let noise: Vec<(u64, bool)> = case.noise.iter().filter(|n| n.0 == mi).map(|n| (n.1, n.2)).collect();
            sim.node(format!("m{mi}"), Scripted { noise, idx: mi, tasks: tasks.clone(), senders: Vec::new(), restart: case.restart_of(mi).cloned(), incarnation: 0 });
        }
        let rt = Builder::seeded(11).quiet().build(sim.freeze());
        match rt.run() {
            Ok((_, t, _)) => Ok(t.as_nanos() as u64),
            Err(e) => Err(format!("{e}")),
        }
    });
    des::verif::set_timer_observer(None);
    let log = LOG.with(|l| std::mem::take(&mut *l.borrow_mut()));
    let slots = SLOTS.with(|l| std::mem::take(&mut *l.borrow_mut()));
    let (slot_events, empty_front_slots) = SLOT_STATS.with(|s| *s.borrow());
    match res {
        Ok(result) => Observed { log, slots, slot_events, empty_front_slots, result, panicked: None },
        Err(p) => Observed { log, slots, slot_events, empty_front_slots, result: Err(String::new()), panicked: Some(p) },
    }
}

pub type Finding = (&'static str, String);

pub fn check(case: &Case, o: &Observed) -> Vec<Finding> {
    let mut f = Vec::new();
    if let Some(p) = &o.panicked {
        f.push(("run-panicked", format!("the simulation unwound: {p}")));
        return f;
    }
    let want = reference(case);
    let mut got: HashMap<(usize, usize, usize), (u64, u64)> = HashMap::new();
    for r in &o.log {
        if got.insert((r.module, r.task, r.step), (r.t, r.outcome)).is_some() {
            f.push(("step-twice", format!("step {} of task {} in module {} completed twice", r.step, r.task, r.module)));
        }
    }
    for w in &want {
        let step = if w.task >= 100 {
            &case.restart_of(w.module).expect("restart").tasks[w.task - 100].steps[w.step]
        } else {
            &case.modules[w.module][w.task].steps[w.step]
        };
        match got.get(&(w.module, w.task, w.step)) {
            None => {
                f.push((
                    "not-finished",
                    format!(
                        "module m{} task {} step {} ({step:?}) must complete at {} ns but never did (run result: {:?})",
                        w.module, w.task, w.step, w.t, o.result
                    ),
                ));
                break;
            }
            Some((t, outcome)) => {
                if *t != w.t {
                    let kind = if *t < w.t { "fired-early" } else { "fired-late" };
                    f.push((
                        kind,
                        format!("module m{} task {} step {} ({step:?}) completed at {t} ns, its deadline is {} ns", w.module, w.task, w.step, w.t),
                    ));
                    break;
                }
                if *outcome != w.outcome {
                    f.push((
                        "wrong-outcome",
                        format!("module m{} task {} step {} ({step:?}) at {t} ns: outcome {outcome}, expected {}", w.module, w.task, w.step, w.outcome),
                    ));
                    break;
                }
            }
        }
    }
    if o.log.len() > want.len() {
        f.push(("phantom-step", format!("{} steps logged, the scripts have {}", o.log.len(), want.len())));
    }
    if f.is_empty() {
        match &o.result {
            Err(e) => f.push(("run-error", format!("every script finished but run() returned an error: {e}"))),
            Ok(end) => {
                let last = want.iter().map(|r| r.t).max().unwrap_or(0);
                if *end < last {
                    f.push(("ended-early", format!("the run ended at {end} ns, the last timer fires at {last} ns")));
                }
            }
        }
    }
    if let Some(s) = o.slots.first() {
        f.push((
            "no-wakeup-scheduled",
            format!(
                "module {} after its event at {} ns: earliest waiting timer at {:?} ns but the next scheduled wake-up is at {} ns (empty slots in front: {})",
                s.module, s.now, s.earliest_live, s.next_wakeup, s.empty_in_front
            ),
        ));
    }
    f
}

// (0.3 ms and 0.7 ms: deadlines of different tasks then differ by less than a millisecond)
const DURS: &[u64] = &[0, MS, 5 * MS, 10 * MS, 20 * MS, 50 * MS, 100 * MS, 1000 * MS, 5000 * MS, 10_000 * MS, 300_000, 700_000];

fn d(rng: &mut Rng) -> u64 {
    *rng.pick(DURS)
}

pub fn gen_task(rng: &mut Rng, max_steps: usize) -> Task {
    gen_task_with(rng, max_steps, true)
}

pub fn gen_task_with(rng: &mut Rng, max_steps: usize, allow_recv: bool) -> Task {
    let n = 1 + rng.usize_below(max_steps);
    let mut steps = Vec::new();
    let mut recvs = 0usize;
    while steps.len() < n {
        match rng.below(14) {
            0..=2 => steps.push(Step::Sleep(d(rng))),
            3 => steps.push(Step::SleepUntil(rng.below(30_000) * MS)),
            4..=5 => {
                let inner = match rng.below(4) {
                    0 => Inner::Yield,
                    1 => Inner::Never,
                    2 => Inner::Sleep(u64::MAX),
                    _ => Inner::Sleep(d(rng)),
                };
                let mut dd = d(rng);
                if dd == 0 && inner == Inner::Yield {
                    // the deadline is already reached AND the inner future completes within the same instant
                    // (on its second poll): which of the two clauses of the statement wins is a matter of
                    // polling order inside the instant, so this single combination is not generated
                    dd = MS;
                }
                steps.push(Step::Timeout { d: dd, inner });
            }
            6..=7 => {
                let (a, b) = (d(rng), if rng.chance(1, 5) { u64::MAX } else { d(rng) });
                if rng.chance(1, 2) {
                    steps.push(Step::Select { a, b });
                } else {
                    steps.push(Step::Select { a: b, b: a });
                }
            }
            8 if rng.chance(1, 3) => steps.push(Step::TwinDrop(d(rng))),
            8 if rng.chance(1, 2) => steps.push(Step::FarArmed { t_abs: *rng.pick(&[2000 * MS, 5000 * MS, 10_000 * MS, 20_000 * MS]), give_up: rng.chance(1, 2) }),
            8 => steps.push(Step::PollDrop(if rng.chance(1, 6) { u64::MAX } else { d(rng) })),
            9 => {
                if rng.chance(1, 2) {
                    steps.push(Step::Reset { d1: d(rng), d2: d(rng) });
                } else {
                    let (d1, d2) = (d(rng), d(rng));
                    // the other timer ends exactly at the deadline (tie) or after it
                    let wait = if rng.chance(1, 2) { d1 } else { d1 + d(rng) };
                    steps.push(Step::ResetLate { d1, wait, d2 });
                }
            }
            10..=11 => {
                // an interval section: only multiples of 10 ms between its ticks, period >= 20 ms, so a tick is
                // either on time or late by >= 10 ms (outside the implementation's 5 ms grace window)
                let period = *rng.pick(&[20 * MS, 50 * MS, 100 * MS]);
                let behavior = *rng.pick(&[Behavior::Burst, Behavior::Delay, Behavior::Skip]);
                if rng.chance(1, 3) {
                    // first tick due 50 / 10 ms ago, now, or in 10 / 100 ms
                    let (back, fwd) = *rng.pick(&[(50 * MS, 0), (10 * MS, 0), (0, 0), (0, 10 * MS), (0, 100 * MS), (0, 300 * MS)]);
                    steps.push(Step::IntervalAt { back, fwd, period, behavior });
                    // a reset before the first tick (the first tick may be further away than one period: the reset
                    // then pulls it closer)
                    if rng.chance(1, 3) {
                        if rng.chance(1, 2) {
                            steps.push(Step::Sleep(10 * MS));
                        }
                        steps.push(Step::IntervalReset);
                    }
                } else {
                    steps.push(Step::IntervalNew { period, behavior });
                }
                steps.push(Step::Tick);
                for _ in 0..1 + rng.usize_below(5) {
                    if rng.chance(1, 2) {
                        steps.push(Step::Sleep(*rng.pick(&[10 * MS, 20 * MS, 30 * MS, 50 * MS, 70 * MS, 200 * MS])));
                    }
                    if rng.chance(1, 6) {
                        steps.push(Step::IntervalReset);
                    }
                    steps.push(Step::Tick);
                }
            }
            _ => {
                if allow_recv {
                    steps.push(Step::Recv);
                    recvs += 1;
                } else {
                    steps.push(Step::Sleep(d(rng)));
                }
            }
        }
    }
    let mut feeds: Vec<u64> = (0..recvs).map(|_| rng.below(20_000) * MS).collect();
    feeds.sort_unstable();
    // far-future sleeps may only lose: a plain Select with both far would never complete
    for s in steps.iter_mut() {
        if let Step::Select { a, b } = s {
            if *a == u64::MAX && *b == u64::MAX {
                *b = 10 * MS;
            }
        }
    }
    Task { steps, feeds, alt_api: rng.chance(1, 3) }
}

pub fn gen_case(rng: &mut Rng, max_steps: usize) -> Case {
    let modules = 1 + rng.usize_below(4);
    let mut mods = Vec::new();
    let mut restarts = Vec::new();
    for _ in 0..modules {
        let tasks = 1 + rng.usize_below(8);
        if rng.chance(1, 4) {
            // a module that is shut down and restarted while timers are pending (its scripts use no channel feeds)
            // a third of a millisecond off the grid: timer deadlines are sums of multiples of 0.1 ms and never coincide with it
            let shutdown_at = (1 + rng.below(3000)) * MS + 333_333;
            let restart_at = shutdown_at + (1 + rng.below(2000)) * MS;
            mods.push((0..tasks).map(|_| gen_task_with(rng, max_steps, false)).collect());
            let n2 = 1 + rng.usize_below(4);
            let watchdog_ns = if rng.chance(1, 2) { Some((restart_at - shutdown_at) + (1 + rng.below(3000)) * MS) } else { None };
            restarts.push(Some(Restart { shutdown_at, restart_at, tasks: (0..n2).map(|_| gen_task_with(rng, max_steps, false)).collect(), watchdog_ns }));
        } else {
            mods.push((0..tasks).map(|_| gen_task(rng, max_steps)).collect());
            restarts.push(None);
        }
    }
    let mut case = Case { modules: mods, restarts, noise: Vec::new() };
    add_noise(rng, &mut case);
    case
}

/// unrelated self messages, most of them arriving exactly at a timer deadline of their module
fn add_noise(rng: &mut Rng, case: &mut Case) {
    if rng.chance(1, 2) {
        return;
    }
    let reference = reference(case);
    for mi in 0..case.modules.len() {
        let instants: Vec<u64> = reference.iter().filter(|r| r.module == mi && r.t > 0 && r.t < 1 << 50).map(|r| r.t).collect();
        if instants.is_empty() {
            continue;
        }
        for _ in 0..rng.usize_below(7) {
            let t = if rng.chance(3, 4) { *rng.pick(&instants) } else { rng.below(20_000) * MS + MS / 4 };
            case.noise.push((mi, t, rng.chance(1, 2)));
        }
    }
}

fn case_hash(c: &Case) -> u64 {
    let mut h = Hasher64::new();
    h.str(&serde_json::to_string(c).unwrap());
    h.finish()
}

pub fn case_json(case: &Case) -> Value {
    json!({"driver": "desmon", "sub": "c05", "case": serde_json::to_value(case).unwrap()})
}

pub fn cmd(args: &Args) -> Report {
    let mut rep = Report::new("C05");
    let mut rng = Rng::new(args.stream_seed("c05"));
    let cases = args.cases(384_000, 6_000_000);
    let max_steps = args.extra_u64("steps").unwrap_or(30) as usize;
    for i in 0..cases {
        let case = if i % 4 == 0 {
            // small: one module, few short tasks (the shapes that isolate a single timer interaction)
            let mut c = Case { modules: vec![(0..1 + rng.usize_below(2)).map(|_| gen_task(&mut rng, 4)).collect()], restarts: Vec::new(), noise: Vec::new() };
            add_noise(&mut rng, &mut c);
            c
        } else {
            gen_case(&mut rng, max_steps)
        };
        vcommon::mark_case(&format!("c05:{}:{}:{}", args.seed, args.shard, i));
        let o = execute(&case);
        let findings = check(&case, &o);
        rep.eval();
        rep.count("timer_steps_checked", o.log.len() as u64);
        rep.count("module_events_with_timer_state_observed", o.slot_events);
        rep.count("unrelated_messages_arriving_at_a_timer_deadline", case.noise.len() as u64);
        rep.count("unrelated_messages_swallowed_by_a_processing_element", case.noise.iter().filter(|n| n.2).count() as u64);
        rep.count("module_events_with_empty_slots_in_front_of_live_timers", o.empty_front_slots);
        for t in case.modules.iter().flatten() {
            for s in &t.steps {
                let key = match s {
                    Step::Sleep(_) => "steps_sleep",
                    Step::SleepUntil(_) => "steps_sleep_until",
                    Step::Timeout { .. } => "steps_timeout",
                    Step::Select { .. } => "steps_select",
                    Step::PollDrop(_) => "steps_poll_then_drop",
                    Step::TwinDrop(_) => "steps_twin_timers_first_dropped",
                    Step::FarArmed { .. } => "steps_far_future_sleep_armed_by_reset",
                    Step::Reset { .. } => "steps_reset",
                    Step::ResetLate { .. } => "steps_reset_after_deadline",
                    Step::IntervalNew { .. } => "steps_interval_new",
                    Step::IntervalAt { .. } => "steps_interval_at",
                    Step::IntervalReset => "steps_interval_reset",
                    Step::Tick => "steps_interval_tick",
                    Step::Recv => "steps_recv",
                };
                rep.count(key, 1);
                if t.alt_api {
                    rep.count("steps_through_sleep_until_timeout_at_interval_at", 1);
                }
            }
        }
        if findings.is_empty() && o.empty_front_slots > 0 {
            rep.nontrivial(case_hash(&case));
            if rep.wants_sample() && case.modules.len() == 1 && case.modules[0].len() == 1 && case.modules[0][0].steps.len() <= 5 {
                rep.sample(json!({"case": serde_json::to_value(&case).unwrap(), "log": serde_json::to_value(&o.log).unwrap()}));
            }
        }
        let mut stop = false;
        for (kind, detail) in findings.into_iter().take(2) {
            if !rep.violation(&format!("C05/{kind}"), &detail, case_json(&case)) {
                stop = true;
            }
        }
        if stop {
            break;
        }
    }
    rep
}

pub fn replay(v: &Value) -> i32 {
    let case: Case = serde_json::from_value(v.get("case").expect("case").clone()).expect("case");
    println!("case: {}", serde_json::to_string_pretty(&case).unwrap());
    let o = execute(&case);
    println!("observed log: {:?}\nreference:    {:?}\nrun result: {:?}", o.log, reference(&case), o.result);
    let f = check(&case, &o);
    if f.is_empty() {
        println!("no violation");
        0
    } else {
        for (k, d) in f {
            println!("VIOLATION reproduced: C05/{k}: {d}");
        }
        1
    }
}
