//! C14 — processing elements bracket every module event in stack order.
//!
//! Device-under-test modules get stacks of 0..4 elements (pass / tag / consume-if), supplied
//! globally (`set_stack`), per module (`Module::stack`) or both. All hooks, the handlers and the
//! receptions of messages sent from hooks log into one global sequence, which is parsed by a
//! bracket-grammar checker per module event.

use des::net::processing::{ProcessingElement, ProcessingStack};
use des::prelude::*;
use des::time::sleep;
use serde::{Deserialize, Serialize};
use serde_json::{json, Value};
use std::cell::RefCell;
use vcommon::{Args, Hasher64, Report, Rng};

const K_PROBE: u16 = 0x4000; // messages sent from hooks carry this bit in `kind`
const K_NOISE: u16 = 0x2000; // delayed filler in front of a burst, ignored by the sink

#[derive(Debug, Clone, Copy, Serialize, Deserialize, PartialEq)]
pub enum ElKind {
    Pass,
    /// sets bit `idx` in header.kind
    Tag,
    /// consumes messages with id % modulus == rest
    ConsumeIf { modulus: u16, rest: u16 },
    /// sends a probe message from every hook (checks program order of emissions)
    Chatty,
}

#[derive(Debug, Clone, Serialize, Deserialize, PartialEq)]
pub struct Dut {
    /// elements the module adds itself through Module::stack (appended to the global ones)
    pub own: Vec<ElKind>,
    pub stages: usize,
    /// ids of self messages, sent at these instants (ns)
    pub msgs: Vec<(u64, u16)>,
    /// timer wake-ups: a task sleeping for these durations, one after the other
    pub sleeps: Vec<u64>,
    /// message id on which the module requests shutdown-and-restart (restart stages are bracketed too)
    pub restart_on: Option<u16>,
    /// the handler itself sends two probe messages
    pub handler_sends: bool,
    /// at_sim_end reports an error (the tear-down event is bracketed all the same)
    #[serde(default)]
    pub end_err: bool,
    /// Module::stack builds a stack of its own elements and appends it as a whole (instead of element by element)
    #[serde(default)]
    pub append_at_once: bool,
    /// Module::stack ignores the base stack it is given (the simulation-wide elements) and returns a stack of its own
    /// elements only: exactly those are installed for this module
    #[serde(default)]
    pub replace_base: bool,
    /// on this message id the handler first sends a delayed message and then a burst of this many immediate ones
    /// (what an event buffers is neither sorted nor short)
    #[serde(default)]
    pub burst_on: Option<(u16, usize)>,
    /// the handler panics on this message id; the module's stereotype catches panics, so the event is closed
    /// normally (event_end on every element) and the module is inert afterwards
    #[serde(default)]
    pub panic_on: Option<u16>,
}

#[derive(Debug, Clone, Serialize, Deserialize, PartialEq)]
pub struct Case {
    pub global: Vec<ElKind>,
    pub duts: Vec<Dut>,
}

#[derive(Debug, Clone, Copy, PartialEq, Eq, Serialize, Deserialize)]
pub enum Hook {
    Start,
    Incoming,
    End,
    HandleMessage,
    SimStart,
    SimEnd,
    TaskWake,
    Reset,
    /// sink: received probe (origin dut, program-order index)
    Probe,
}

#[derive(Debug, Clone, Copy, PartialEq, Eq, Serialize, Deserialize)]
pub struct Entry {
    pub dut: usize,
    pub hook: Hook,
    /// element index (Start / Incoming / End), stage (SimStart), probe index (Probe)
    pub idx: usize,
    pub id: u16,
    pub tags: u16,
    /// what `incoming` returned: true = passed on, false = consumed
    pub passed: bool,
}

thread_local! {
    static LOG: RefCell<Vec<Entry>> = const { RefCell::new(Vec::new()) };
    static PROBE_SEQ: RefCell<Vec<usize>> = const { RefCell::new(Vec::new()) };
}

fn log(e: Entry) {
    LOG.with(|l| l.borrow_mut().push(e));
}

fn dut_index() -> usize {
    current().path().as_str().trim_start_matches("dut").parse().unwrap_or(usize::MAX)
}

/// sends a probe to the sink; the probe carries the per-dut program-order counter
fn emit_probe(dut: usize) {
    let n = PROBE_SEQ.with(|p| {
        let mut p = p.borrow_mut();
        if p.len() <= dut {
            p.resize(dut + 1, 0);
        }
        p[dut] += 1;
        p[dut] - 1
    });
    send(Message::default().kind(K_PROBE).id(n as u16), "probe");
}

struct El {
    idx: usize,
    kind: ElKind,
}

impl ProcessingElement for El {
    fn event_start(&mut self) {
        let dut = dut_index();
        log(Entry { dut, hook: Hook::Start, idx: self.idx, id: 0, tags: 0, passed: true });
        if self.kind == ElKind::Chatty {
            emit_probe(dut);
        }
    }

    fn event_end(&mut self) {
        let dut = dut_index();
        log(Entry { dut, hook: Hook::End, idx: self.idx, id: 0, tags: 0, passed: true });
        if self.kind == ElKind::Chatty {
            emit_probe(dut);
        }
    }

    fn incoming(&mut self, mut msg: Message) -> Option<Message> {
        let dut = dut_index();
        let (id, tags) = (msg.header().id, msg.header().kind);
        let consume = matches!(self.kind, ElKind::ConsumeIf { modulus, rest } if id % modulus == rest);
        log(Entry { dut, hook: Hook::Incoming, idx: self.idx, id, tags, passed: !consume });
        if self.kind == ElKind::Chatty {
            emit_probe(dut);
        }
        if consume {
            return None;
        }
        if self.kind == ElKind::Tag {
            msg.header_mut().kind |= 1 << self.idx;
        }
        Some(msg)
    }
}

struct DutModule {
    idx: usize,
    global_len: usize,
    dut: Dut,
}

impl Module for DutModule {
    fn stack(&self, mut stack: ProcessingStack) -> ProcessingStack {
        if self.dut.replace_base {
            let mut own = ProcessingStack::default();
            for (i, k) in self.dut.own.iter().enumerate() {
                own.append(El { idx: i, kind: *k });
            }
            return own;
        }
        if self.dut.append_at_once {
            let mut own = ProcessingStack::default();
            for (i, k) in self.dut.own.iter().enumerate() {
                own.append(El { idx: self.global_len + i, kind: *k });
            }
            stack.append(own);
        } else {
            for (i, k) in self.dut.own.iter().enumerate() {
                stack.append(El { idx: self.global_len + i, kind: *k });
            }
        }
        stack
    }

    fn reset(&mut self) {
        log(Entry { dut: self.idx, hook: Hook::Reset, idx: 0, id: 0, tags: 0, passed: true });
    }

    fn num_sim_start_stages(&self) -> usize {
        self.dut.stages
    }

    fn at_sim_start(&mut self, stage: usize) {
        log(Entry { dut: self.idx, hook: Hook::SimStart, idx: stage, id: 0, tags: 0, passed: true });
        if stage == 0 && SimTime::now() == SimTime::ZERO {
            if self.dut.panic_on.is_some() {
                current().set_stereotyp(des::net::module::Stereotyp { on_panic_catch: true, ..des::net::module::Stereotyp::HOST });
            }
            for (t, id) in &self.dut.msgs {
                schedule_at(Message::default().id(*id), SimTime::from_duration(Duration::from_nanos(*t)));
            }
            let sleeps = self.dut.sleeps.clone();
            let idx = self.idx;
            if !sleeps.is_empty() {
                tokio::spawn(async move {
                    for d in sleeps {
                        sleep(Duration::from_nanos(d)).await;
                        log(Entry { dut: idx, hook: Hook::TaskWake, idx: 0, id: 0, tags: 0, passed: true });
                    }
                });
            }
        }
    }

    fn handle_message(&mut self, msg: Message) {
        let h = msg.header();
        log(Entry { dut: self.idx, hook: Hook::HandleMessage, idx: 0, id: h.id, tags: h.kind, passed: true });
        if self.dut.handler_sends {
            emit_probe(self.idx);
            emit_probe(self.idx);
        }
        if let Some((id, n)) = self.dut.burst_on {
            if id == h.id {
                send_in(Message::default().kind(K_NOISE), "probe", Duration::from_nanos(7_000_000));
                for _ in 0..n {
                    emit_probe(self.idx);
                }
            }
        }
        if self.dut.restart_on == Some(h.id) {
            current().shutdow_and_restart_in(Duration::from_nanos(1_000));
        }
        if self.dut.panic_on == Some(h.id) {
            panic!("injected panic in the handler of dut{} (caught by its stereotype)", self.idx);
        }
    }

    fn at_sim_end(&mut self) -> Result<(), RuntimeError> {
        log(Entry { dut: self.idx, hook: Hook::SimEnd, idx: 0, id: 0, tags: 0, passed: true });
        if self.dut.end_err {
            return Err(RuntimeError::from(std::io::Error::other("dut reports a failure at the end")));
        }
        Ok(())
    }
}

struct Sink;
impl Module for Sink {
    fn handle_message(&mut self, msg: Message) {
        if msg.header().kind == K_NOISE {
            return;
        }
        let gate = msg.header().last_gate.as_ref().map_or(String::new(), |g| g.name().to_string());
        let dut: usize = gate.trim_start_matches("from").parse().unwrap_or(usize::MAX);
        log(Entry { dut, hook: Hook::Probe, idx: msg.header().id as usize, id: 0, tags: 0, passed: true });
    }
}

pub fn execute(case: &Case) -> (Vec<Entry>, Result<(), String>) {
    LOG.with(|l| l.borrow_mut().clear());
    PROBE_SEQ.with(|p| p.borrow_mut().clear());
    let global = case.global.clone();
    let res = vcommon::catch(|| {
        let mut sim = Sim::new(());
        // the sink is created before the global stack is installed: it must see the probes unfiltered
        sim.node("sink", Sink);
        let g = global.clone();
        sim.set_stack(move || {
            let mut s = ProcessingStack::default();
            for (i, k) in g.iter().enumerate() {
                s.append(El { idx: i, kind: *k });
            }
            s
        });
        for (i, d) in case.duts.iter().enumerate() {
            sim.node(format!("dut{i}"), DutModule { idx: i, global_len: global.len(), dut: d.clone() });
        }
        for i in 0..case.duts.len() {
            let a = sim.gate(format!("dut{i}").as_str(), "probe");
            let b = sim.gate("sink", &format!("from{i}"));
            a.connect(b, None);
        }
        let rt = Builder::seeded(2).quiet().build(sim.freeze());
        rt.run().map(|_| ()).map_err(|e| format!("{e}"))
    });
    let log = LOG.with(|l| std::mem::take(&mut *l.borrow_mut()));
    match res {
        Ok(r) => (log, r),
        Err(p) => (log, Err(format!("panicked: {p}"))),
    }
}

pub type Finding = (&'static str, String);

#[derive(Default)]
pub struct Obs {
    pub brackets: u64,
    pub message_brackets: u64,
    pub consumed: u64,
    pub wake_brackets: u64,
    pub start_brackets: u64,
    pub restart_brackets: u64,
    pub end_brackets: u64,
    pub probes: u64,
    pub caught_panics: u64,
}

/// bracket grammar over the global log
pub fn check(case: &Case, log: &[Entry], result: &Result<(), String>) -> (Vec<Finding>, Obs) {
    let mut f: Vec<Finding> = Vec::new();
    let mut obs = Obs::default();
    let err_expected = case.duts.iter().any(|d| d.end_err);
    match result {
        Err(e) if !err_expected || e.starts_with("panicked") => {
            f.push(("run-error", format!("run() failed: {e}")));
            return (f, obs);
        }
        Ok(()) if err_expected => {
            f.push(("run-error", "a module returned an error from at_sim_end but run() returned Ok".into()));
            return (f, obs);
        }
        _ => {}
    }
    let n_duts = case.duts.len();
    // entries of the sink's own elements (dut index out of range) and probes are not part of dut brackets
    let is_dut = |e: &Entry| e.dut < n_duts && e.hook != Hook::Probe;
    let mut i = 0;
    let mut resets_seen = vec![0usize; n_duts];
    while i < log.len() {
        if !is_dut(&log[i]) {
            i += 1;
            continue;
        }
        let d = log[i].dut;
        let glen = if case.duts[d].replace_base { 0 } else { case.global.len() };
        let k = glen + case.duts[d].own.len();
        if log[i].hook == Hook::Reset {
            // reset is not a module event of its own (no bracket is stated for it)
            resets_seen[d] += 1;
            i += 1;
            continue;
        }
        // ---- parse one bracket of module d starting at i
        let begin = i;
        let mut fail = |what: String, at: usize| -> Finding { ("bracket", format!("dut{d} (stack of {k}), log position {at}: {what}; window: {:?}", &log[begin..log.len().min(at + 3)])) };
        let mut j = i;
        let mut next_start = 0usize;
        let mut next_incoming = 0usize;
        let mut consumed = false;
        let mut incoming_id: Option<u16> = None;
        let mut tags_expected: u16 = 0;
        // upstream: start_0 [incoming_0] start_1 [incoming_1] ...
        while j < log.len() && next_start < k {
            let e = &log[j];
            if !is_dut(e) {
                j += 1;
                continue;
            }
            if e.dut != d {
                f.push(fail(format!("hook of dut{} inside the bracket", e.dut), j));
                return (f, obs);
            }
            match e.hook {
                Hook::Start => {
                    if e.idx != next_start {
                        f.push(fail(format!("event_start of element {} where element {next_start} is due", e.idx), j));
                        return (f, obs);
                    }
                    next_start += 1;
                }
                Hook::Incoming => {
                    if consumed {
                        f.push(fail(format!("incoming of element {} after the message was consumed", e.idx), j));
                        return (f, obs);
                    }
                    if e.idx != next_incoming || e.idx + 1 != next_start {
                        f.push(fail(format!("incoming of element {} out of order (starts so far {next_start}, incomings so far {next_incoming})", e.idx), j));
                        return (f, obs);
                    }
                    if let Some(id) = incoming_id {
                        if id != e.id {
                            f.push(fail(format!("element {} sees message id {} but the event is about id {id}", e.idx, e.id), j));
                            return (f, obs);
                        }
                    }
                    incoming_id = Some(e.id);
                    if e.tags != tags_expected {
                        f.push(fail(format!("element {} sees tags {:#x}, the elements before it returned {:#x}", e.idx, e.tags, tags_expected), j));
                        return (f, obs);
                    }
                    let kind = if e.idx < glen { case.global[e.idx] } else { case.duts[d].own[e.idx - glen] };
                    if kind == ElKind::Tag && e.passed {
                        tags_expected |= 1 << e.idx;
                    }
                    if !e.passed {
                        consumed = true;
                    }
                    next_incoming += 1;
                }
                other => {
                    f.push(fail(format!("{other:?} before all {k} elements saw event_start"), j));
                    return (f, obs);
                }
            }
            j += 1;
        }
        // the incoming of the last element may follow its start
        while j < log.len() && !is_dut(&log[j]) {
            j += 1;
        }
        if j < log.len() && log[j].dut == d && log[j].hook == Hook::Incoming {
            // handled by the loop above only while next_start < k; the last element's incoming comes here
            let e = &log[j];
            if consumed || e.idx != next_incoming || e.idx + 1 != k {
                f.push(fail(format!("incoming of element {} out of order at the end of the upstream pass", e.idx), j));
                return (f, obs);
            }
            if incoming_id.is_some_and(|id| id != e.id) || e.tags != tags_expected {
                f.push(fail(format!("last element sees id {} tags {:#x}, expected tags {:#x}", e.id, e.tags, tags_expected), j));
                return (f, obs);
            }
            incoming_id = Some(e.id);
            let kind = if e.idx < glen { case.global[e.idx] } else { case.duts[d].own[e.idx - glen] };
            if kind == ElKind::Tag && e.passed {
                tags_expected |= 1 << e.idx;
            }
            if !e.passed {
                consumed = true;
            }
            next_incoming += 1;
            j += 1;
        }
        // body: handler (message passed all elements), or a non-message event body, or nothing (consumed)
        while j < log.len() && !is_dut(&log[j]) {
            j += 1;
        }
        let mut body: Option<Hook> = None;
        if j < log.len() && log[j].dut == d {
            match log[j].hook {
                Hook::HandleMessage => {
                    let e = &log[j];
                    if consumed {
                        f.push(fail("the handler ran although an element consumed the message".into(), j));
                        return (f, obs);
                    }
                    if k > 0 && (next_incoming != k || incoming_id != Some(e.id)) {
                        f.push(fail(format!("the handler got message {} that did not pass all {k} incoming hooks ({next_incoming} seen)", e.id), j));
                        return (f, obs);
                    }
                    if e.tags != tags_expected {
                        f.push(fail(format!("the handler sees tags {:#x}, the stack returned {:#x}", e.tags, tags_expected), j));
                        return (f, obs);
                    }
                    body = Some(Hook::HandleMessage);
                    j += 1;
                }
                Hook::SimStart | Hook::SimEnd => {
                    if next_incoming > 0 {
                        f.push(fail("a start / end event saw incoming hooks".into(), j));
                        return (f, obs);
                    }
                    body = Some(log[j].hook);
                    j += 1;
                }
                Hook::TaskWake => {
                    // a timer wake-up: the task(s) run inside the bracket (counted below)
                    if next_incoming == 0 {
                        body = Some(Hook::TaskWake);
                    }
                }
                _ => {}
            }
        }
        // tasks of the module whose timer is due run inside whatever event activates the module
        while j < log.len() && (!is_dut(&log[j]) || (log[j].dut == d && log[j].hook == Hook::TaskWake)) {
            j += 1;
        }
        if body.is_none() && next_incoming > 0 && !consumed {
            f.push(fail("a message passed every element but the handler was not called".into(), j.min(log.len() - 1)));
            return (f, obs);
        }
        // downstream: end_{k-1} .. end_0
        let mut next_end = k;
        while next_end > 0 {
            while j < log.len() && !is_dut(&log[j]) {
                j += 1;
            }
            if j >= log.len() || log[j].dut != d || log[j].hook != Hook::End || log[j].idx != next_end - 1 {
                f.push(fail(format!("event_end of element {} is due", next_end - 1), j.min(log.len() - 1)));
                return (f, obs);
            }
            next_end -= 1;
            j += 1;
        }
        if k == 0 && body.is_none() {
            // without elements a bracket is just its body; an entry we cannot place
            f.push(fail(format!("unexpected entry {:?}", log[begin]), begin));
            return (f, obs);
        }
        obs.brackets += 1;
        match body {
            Some(Hook::HandleMessage) => obs.message_brackets += 1,
            Some(Hook::SimStart) => {
                if resets_seen[d] > 0 {
                    obs.restart_brackets += 1;
                } else {
                    obs.start_brackets += 1;
                }
            }
            Some(Hook::SimEnd) => obs.end_brackets += 1,
            Some(Hook::TaskWake) => obs.wake_brackets += 1,
            _ => {
                if consumed {
                    obs.consumed += 1;
                    obs.message_brackets += 1;
                }
            }
        }
        i = j.max(begin + 1);
    }
    // every scheduled message produced exactly one bracket (handled or consumed), unless it arrived while down
    // (restart window of 1 us: messages are not scheduled inside it)
    for (d, dut) in case.duts.iter().enumerate() {
        // a handler that panicked (caught): the module is inert from then on
        let dead_after: Option<u64> = dut.panic_on.and_then(|pid| {
            let reached = log.iter().any(|e| e.dut == d && e.hook == Hook::HandleMessage && e.id == pid);
            if reached {
                obs.caught_panics += 1;
                dut.msgs.iter().find(|(_, id)| *id == pid).map(|(t, _)| *t)
            } else {
                None
            }
        });
        for (t, id) in &dut.msgs {
            let handled = log.iter().filter(|e| e.dut == d && e.hook == Hook::HandleMessage && e.id == *id).count();
            let consumed_n = log.iter().filter(|e| e.dut == d && e.hook == Hook::Incoming && e.id == *id && !e.passed).count();
            if dead_after.is_some_and(|dt| *t > dt) {
                if handled + consumed_n != 0 {
                    f.push(("message-count", format!("dut{d}: message {id} was processed although the module's handler had panicked before")));
                }
                continue;
            }
            if handled + consumed_n != 1 {
                f.push(("message-count", format!("dut{d}: message {id} was handled {handled}x and consumed {consumed_n}x")));
            }
        }
        let ends = log.iter().filter(|e| e.dut == d && e.hook == Hook::SimEnd).count();
        if ends != 1 {
            f.push(("message-count", format!("dut{d}: at_sim_end ran {ends} times")));
        }
    }
    // probes: emitted in program order per dut, all arrive
    for d in 0..n_duts {
        let seq: Vec<usize> = log.iter().filter(|e| e.hook == Hook::Probe && e.dut == d).map(|e| e.idx).collect();
        obs.probes += seq.len() as u64;
        let emitted = PROBE_SEQ.with(|p| p.borrow().get(d).copied().unwrap_or(0));
        // probes sent from at_sim_end hooks are never delivered (no events after tear-down)
        if seq.windows(2).any(|w| w[0] >= w[1]) {
            f.push(("emission-order", format!("dut{d}: messages sent during events arrived in the order {:?}", &seq[..seq.len().min(20)])));
        }
        if seq.len() > emitted || (!seq.is_empty() && seq[0] != 0) {
            f.push(("emission-order", format!("dut{d}: {} probes received, {emitted} emitted", seq.len())));
        }
    }
    (f, obs)
}

pub fn gen_case(rng: &mut Rng) -> Case {
    let el = |rng: &mut Rng| match rng.below(6) {
        0 => ElKind::Pass,
        1..=2 => ElKind::Tag,
        3..=4 => ElKind::ConsumeIf { modulus: 2 + rng.below(4) as u16, rest: rng.below(2) as u16 },
        _ => ElKind::Chatty,
    };
    let g = rng.usize_below(4);
    let global: Vec<ElKind> = (0..g).map(|_| el(rng)).collect();
    let n = 1 + rng.usize_below(2);
    let duts = (0..n)
        .map(|_| {
            let own_n = rng.usize_below(5usize.saturating_sub(g).min(3));
            let own: Vec<ElKind> = (0..own_n).map(|_| el(rng)).collect();
            let m = 3 + rng.usize_below(40);
            // distinct instants, none inside the 1 us restart window (t multiple of 1 ms, restart = t + 1 us)
            let mut slots: Vec<u64> = (1..=2000).collect();
            rng.shuffle(&mut slots);
            let msgs: Vec<(u64, u16)> = (0..m).map(|i| (slots[i] * 1_000_000, i as u16)).collect();
            let restart_on = if rng.chance(1, 3) { Some(rng.below(m as u64) as u16) } else { None };
            Dut {
                own,
                stages: 1 + rng.usize_below(2),
                msgs,
                sleeps: (0..rng.usize_below(4)).map(|_| (1 + rng.below(500)) * 1_000_000 + 500_000).collect(),
                restart_on,
                handler_sends: rng.chance(1, 2),
                end_err: rng.chance(1, 6),
                append_at_once: rng.chance(1, 2),
                replace_base: rng.chance(1, 6),
                burst_on: if rng.chance(1, 6) { Some((rng.below(m as u64) as u16, 33 + rng.usize_below(30))) } else { None },
                panic_on: if restart_on.is_none() && rng.chance(1, 6) { Some(rng.below(m as u64) as u16) } else { None },
            }
        })
        .collect();
    Case { global, duts }
}

fn case_hash(c: &Case) -> u64 {
    let mut h = Hasher64::new();
    h.str(&serde_json::to_string(c).unwrap());
    h.finish()
}

pub fn case_json(case: &Case) -> Value {
    json!({"driver": "desmon", "sub": "c14", "case": serde_json::to_value(case).unwrap()})
}

// -------------------------------------------------------------------------------------------------
// modules created from a network description through a registry (symbol layer and fallback layer)
// -------------------------------------------------------------------------------------------------

thread_local! {
    static NDL_LOG: RefCell<Vec<(String, &'static str)>> = const { RefCell::new(Vec::new()) };
}

struct NdlEl;
impl ProcessingElement for NdlEl {
    fn event_start(&mut self) {
        NDL_LOG.with(|l| l.borrow_mut().push((current().path().as_str().to_string(), "start")));
    }
    fn event_end(&mut self) {
        NDL_LOG.with(|l| l.borrow_mut().push((current().path().as_str().to_string(), "end")));
    }
}

struct NdlMod;
impl Module for NdlMod {
    fn at_sim_start(&mut self, _: usize) {
        NDL_LOG.with(|l| l.borrow_mut().push((current().path().as_str().to_string(), "body")));
        schedule_in(Message::default(), Duration::from_nanos(1_000_000));
    }
    fn handle_message(&mut self, _: Message) {
        NDL_LOG.with(|l| l.borrow_mut().push((current().path().as_str().to_string(), "body")));
    }
    fn at_sim_end(&mut self) -> Result<(), RuntimeError> {
        NDL_LOG.with(|l| l.borrow_mut().push((current().path().as_str().to_string(), "body")));
        Ok(())
    }
}
impl des::net::ndl::RegistryCreatable for NdlMod {
    fn create(_: &ObjectPath, _: &str) -> Self {
        NdlMod
    }
}

/// A simulation-wide element must bracket every event of every module, also of modules that a registry created from
/// a network description - through a symbol or through its fallback.
pub fn ndl_stack_probe() -> Vec<Finding> {
    NDL_LOG.with(|l| l.borrow_mut().clear());
    let text = "entry: Net\nmodules:\n  \"Net\":\n    submodules:\n      \"known\": \"Known\"\n      \"other[2]\": \"Unknown\"\n  \"Known\": {}\n  \"Unknown\": {}\nlinks: {}\n";
    let res = vcommon::catch(|| {
        let mut sim = Sim::new(());
        sim.set_stack(|| {
            let mut s = ProcessingStack::default();
            s.append(NdlEl);
            s
        });
        let mut registry = des::net::ndl::Registry::new().symbol::<NdlMod>("Known").with_fallback(|| NdlMod);
        let ndl = des::net::ndl::Ndl::from_str(&mut registry, text).map_err(|e| format!("{e}"))?;
        sim.node("", ndl).map_err(|e| format!("{e}"))?;
        let rt = Builder::seeded(1).quiet().build(sim.freeze());
        rt.run().map(|_| ()).map_err(|e| format!("{e}"))
    });
    let log = NDL_LOG.with(|l| std::mem::take(&mut *l.borrow_mut()));
    let mut f = Vec::new();
    match res {
        Err(p) => f.push(("panicked", format!("a simulation built from a network description with a global stack panicked: {p}"))),
        Ok(Err(e)) => f.push(("run-error", format!("a simulation built from a network description with a global stack: {e}"))),
        Ok(Ok(())) => {
            for path in ["", "known", "other[0]", "other[1]"] {
                let seq: Vec<&str> = log.iter().filter(|(p, _)| p == path).map(|(_, h)| *h).collect();
                // start-up stage, one message, tear-down: three brackets
                let want = ["start", "body", "end", "start", "body", "end", "start", "body", "end"];
                if seq != want {
                    f.push((
                        "bracket",
                        format!("module '{path}' (created by the registry from a network description, global stack of one element): hooks and bodies {seq:?}, expected three complete brackets {want:?}"),
                    ));
                    break;
                }
            }
        }
    }
    f
}

pub fn cmd(args: &Args) -> Report {
    let mut rep = Report::new("C14");
    let mut rng = Rng::new(args.stream_seed("c14"));
    let cases = args.cases(480_000, 6_000_000);
    for i in 0..cases {
        if i % 1000 == 3 {
            rep.count("simulations_built_from_a_description_with_a_global_stack", 1);
            for (kind, detail) in ndl_stack_probe().into_iter().take(1) {
                rep.violation(&format!("C14/{kind}"), &detail, json!({"driver": "desmon", "sub": "c14", "ndl_stack_probe": true, "note": "re-run the check with the same seed"}));
            }
        }
        let case = gen_case(&mut rng);
        vcommon::mark_case(&format!("c14:{}:{}:{}", args.seed, args.shard, i));
        let (log, result) = execute(&case);
        let (findings, obs) = check(&case, &log, &result);
        rep.eval();
        rep.count("brackets_parsed", obs.brackets);
        rep.count("message_brackets", obs.message_brackets);
        rep.count("messages_consumed_by_an_element", obs.consumed);
        rep.count("timer_wakeup_brackets", obs.wake_brackets);
        rep.count("start_stage_brackets", obs.start_brackets);
        rep.count("restart_stage_brackets", obs.restart_brackets);
        rep.count("teardown_brackets", obs.end_brackets);
        rep.count("message_events_whose_handler_panic_was_caught", obs.caught_panics);
        rep.count("teardowns_reporting_an_error", case.duts.iter().filter(|d| d.end_err).count() as u64);
        rep.count("messages_sent_from_hooks_received", obs.probes);
        let k_max = case.duts.iter().map(|d| d.own.len() + case.global.len()).max().unwrap_or(0);
        rep.count(&format!("cases_with_stack_of_{k_max}"), 1);
        if !case.global.is_empty() && case.duts.iter().any(|d| d.replace_base) {
            rep.count("cases_with_a_module_that_replaces_the_global_stack", 1);
        }
        if !case.global.is_empty() && case.duts.iter().any(|d| !d.own.is_empty()) {
            rep.count("cases_with_global_and_module_stack", 1);
        }
        if case.duts.iter().any(|d| d.burst_on.is_some()) {
            rep.count("cases_with_a_burst_of_more_than_32_messages_in_one_event", 1);
        }
        if case.duts.iter().any(|d| d.append_at_once && !case.global.is_empty() && d.own.len() > case.global.len()) {
            rep.count("cases_appending_a_longer_module_stack_at_once", 1);
        }
        if findings.is_empty() && obs.consumed > 0 && k_max >= 2 {
            rep.nontrivial(case_hash(&case));
            if rep.wants_sample() && case.duts.len() == 1 && case.duts[0].msgs.len() <= 6 {
                rep.sample(json!({"case": serde_json::to_value(&case).unwrap(), "brackets": obs.brackets}));
            }
        }
        let mut stop = false;
        for (kind, detail) in findings.into_iter().take(2) {
            if !rep.violation(&format!("C14/{kind}"), &detail, case_json(&case)) {
                stop = true;
            }
        }
        if stop {
            break;
        }
    }
    rep
}

pub fn replay(v: &Value) -> i32 {
    let case: Case = serde_json::from_value(v.get("case").expect("case").clone()).expect("case");
    println!("case: {}", serde_json::to_string_pretty(&case).unwrap());
    let (log, result) = execute(&case);
    for e in &log {
        println!("  {e:?}");
    }
    let (f, _) = check(&case, &log, &result);
    if f.is_empty() {
        println!("no violation");
        0
    } else {
        for (k, d) in f {
            println!("VIOLATION reproduced: C14/{k}: {d}");
        }
        1
    }
}
