//! C17 — configuration entries reach exactly the modules they address.
//!
//! Flat dotted-key configurations (specific paths, `<any>` wildcards at any depth, sibling names
//! that are prefixes of each other, non-ASCII names) are applied to module paths of depth 1..4,
//! through `Cfg::capture_for_into` and through a real `Sim` (include before / after node
//! creation). The expected property set comes from an independent string-splitting matcher.

use des::prelude::*;
use des_net_utils::props::Cfg;
use serde::{Deserialize, Serialize};
use serde_json::{json, Value};
use std::collections::{BTreeMap, BTreeSet};
use vcommon::{Args, Hasher64, Report, Rng};

const ANY: &str = "<any>";

#[derive(Debug, Clone, Serialize, Deserialize, PartialEq)]
pub struct Case {
    /// (dotted key, unique integer value)
    pub entries: Vec<(String, u64)>,
    /// module paths (dotted); parents are created as needed
    pub paths: Vec<String>,
}

/// the independent matcher: property names (with the values of all matching entries) a module gets
pub fn expected(entries: &[(String, u64)], path: &str) -> BTreeMap<String, BTreeSet<u64>> {
    let p: Vec<&str> = path.split('.').collect();
    let mut out: BTreeMap<String, BTreeSet<u64>> = BTreeMap::new();
    for (key, value) in entries {
        let k: Vec<&str> = key.split('.').collect();
        if k.len() <= p.len() {
            continue;
        }
        if !(0..p.len()).all(|i| k[i] == ANY || k[i] == p[i]) {
            continue;
        }
        let name = &k[p.len()..];
        if name.iter().any(|s| *s == ANY) {
            continue;
        }
        out.entry(name.join(".")).or_default().insert(*value);
    }
    out
}

fn yaml_of(entries: &[(String, u64)]) -> String {
    let mut s = String::new();
    for (k, v) in entries {
        s.push_str(&format!("\"{k}\": {v}\n"));
    }
    s
}

pub type Finding = (&'static str, String);

fn compare(how: &str, path: &str, want: &BTreeMap<String, BTreeSet<u64>>, got: &BTreeMap<String, Option<u64>>, entries: &[(String, u64)]) -> Option<Finding> {
    let wk: BTreeSet<&String> = want.keys().collect();
    let gk: BTreeSet<&String> = got.keys().collect();
    if let Some(missing) = wk.difference(&gk).next() {
        // a known shape: every entry that addresses this property to this module has a key of which a shorter
        // complete entry is a proper prefix, followed by a wildcard (the nesting of wildcard keys loses such an entry)
        let p: Vec<&str> = path.split('.').collect();
        let matching: Vec<&String> = entries
            .iter()
            .map(|(k, _)| k)
            .filter(|k| {
                let ks: Vec<&str> = k.split('.').collect();
                ks.len() > p.len() && (0..p.len()).all(|i| ks[i] == ANY || ks[i] == p[i]) && ks[p.len()..].join(".") == **missing
            })
            .collect();
        let all_victims = !matching.is_empty()
            && matching.iter().all(|k| entries.iter().any(|(short, _)| short != *k && k.starts_with(&format!("{short}.")) && k[short.len()..].contains(ANY)));
        let kind = if all_victims { "missing-key-entry-is-prefix-of-wildcard-entry" } else { "missing-key" };
        return Some((
            kind,
            format!("{how}: module '{path}' must receive property '{missing}' (from an entry matching its path) but got only {:?}; entries {:?}", gk, entries),
        ));
    }
    if let Some(extra) = gk.difference(&wk).next() {
        return Some((
            "foreign-key",
            format!("{how}: module '{path}' received property '{extra}' although no entry addresses it; expected exactly {:?}; entries {:?}", wk, entries),
        ));
    }
    for (k, vals) in want {
        match got[k] {
            Some(v) if vals.contains(&v) => {}
            other => {
                return Some((
                    "wrong-value",
                    format!("{how}: module '{path}' property '{k}' has value {other:?}, the matching entries have {vals:?}; entries {:?}", entries),
                ))
            }
        }
    }
    None
}

struct Quiet;
impl Module for Quiet {}

/// reads its own configured properties while the node is being constructed (e.g. to choose processing elements)
struct Reader {
    keys: Vec<String>,
}
impl Module for Reader {
    fn stack(&self, stack: des::net::processing::ProcessingStack) -> des::net::processing::ProcessingStack {
        for k in &self.keys {
            let _ = current().prop::<u64>(k).map(|p| p.get());
        }
        stack
    }
}

fn value_u64(v: Option<serde_yml::Value>) -> Option<u64> {
    v.and_then(|v| v.as_u64())
}

pub fn execute(case: &Case) -> (Vec<Finding>, u64) {
    let mut f: Vec<Finding> = Vec::new();
    let mut checked = 0u64;
    let yaml = yaml_of(&case.entries);
    // (1) the configuration object alone
    let direct = vcommon::catch(|| {
        let value: serde_yml::Value = serde_yml::from_str(&yaml).expect("generated YAML parses");
        let cfg = Cfg::new(value);
        let mut out = Vec::new();
        for path in &case.paths {
            let segs: Vec<&str> = path.split('.').collect();
            let mut props = cfg.capture_for_into(&segs);
            let keys = props.keys();
            let got: BTreeMap<String, Option<u64>> = keys.iter().map(|k| (k.clone(), value_u64(props.get_raw(k).as_value()))).collect();
            out.push(got);
        }
        out
    });
    match direct {
        Err(p) => {
            f.push(("panicked", format!("capturing the configuration panicked: {p}; entries {:?}, paths {:?}", case.entries, case.paths)));
            return (f, checked);
        }
        Ok(all) => {
            for (path, got) in case.paths.iter().zip(&all) {
                checked += 1;
                let want = expected(&case.entries, path);
                if let Some(x) = compare("Cfg::capture_for_into", path, &want, got, &case.entries) {
                    f.push(x);
                    return (f, checked);
                }
            }
        }
    }
    // (2) through a simulation builder, configuration included before and after the nodes exist
    // `via`: 0 include_cfg, 1 the builder-chain form with_cfg, 2 include_cfg_file (not under Miri: needs the file system)
    let variants: &[(bool, bool, bool, u8)] = if cfg!(miri) {
        &[(true, false, false, 0), (false, false, false, 0), (true, true, false, 0), (true, false, true, 0), (true, false, false, 1), (false, false, false, 1)]
    } else {
        &[(true, false, false, 0), (false, false, false, 0), (true, true, false, 0), (true, false, true, 0), (true, false, false, 1), (false, false, false, 1), (true, false, false, 2), (false, false, false, 2)]
    };
    for &(before, readers, stack_after_cfg, via) in variants {
        let include = |mut sim: des::net::SimBuilder<()>| -> des::net::SimBuilder<()> {
            match via {
                1 => sim.with_cfg(&yaml),
                2 => {
                    let p = std::env::temp_dir().join(format!("verif-c17-{}-{:?}.yml", std::process::id(), std::thread::current().id()));
                    std::fs::write(&p, &yaml).expect("temp file for the configuration");
                    let r = sim.include_cfg_file(&p);
                    let _ = std::fs::remove_file(&p);
                    r.expect("configuration file just written is readable");
                    sim
                }
                _ => {
                    sim.include_cfg(&yaml);
                    sim
                }
            }
        };
        let r = vcommon::catch(|| {
            let mut sim = Sim::new(());
            if before {
                sim = include(sim);
            }
            if stack_after_cfg {
                // a builder option applied between the include and the creation of the nodes
                sim = sim.with_stack(des::net::processing::ProcessingStack::default);
            }
            let mut created: BTreeSet<String> = BTreeSet::new();
            for path in &case.paths {
                let segs: Vec<&str> = path.split('.').collect();
                for d in 1..=segs.len() {
                    let p = segs[..d].join(".");
                    if created.insert(p.clone()) {
                        if readers {
                            sim.node(p.as_str(), Reader { keys: expected(&case.entries, &p).into_keys().collect() });
                        } else {
                            sim.node(p.as_str(), Quiet);
                        }
                    }
                }
            }
            if !before {
                sim = include(sim);
            }
            let mut out = Vec::new();
            for path in created.iter() {
                let m = sim.get(&path.as_str().into()).expect("module exists");
                let keys = m.props_keys();
                let got: BTreeMap<String, Option<u64>> = keys.iter().map(|k| (k.clone(), value_u64(m.prop_raw(k).as_value()))).collect();
                out.push((path.clone(), got));
            }
            drop(sim);
            out
        });
        let how = match (before, readers) {
            (true, false) if via == 1 => "with_cfg before node creation",
            (false, false) if via == 1 => "with_cfg after node creation",
            (true, false) if via == 2 => "include_cfg_file before node creation",
            (false, false) if via == 2 => "include_cfg_file after node creation",
            (true, false) if stack_after_cfg => "include_cfg, then with_stack, then node creation",
            (true, false) => "include_cfg before node creation",
            (true, true) => "include_cfg before node creation, the node reads its properties while it is constructed",
            _ => "include_cfg after node creation",
        };
        match r {
            Err(p) => {
                f.push(("panicked", format!("{how}: building the simulation panicked: {p}; entries {:?}, paths {:?}", case.entries, case.paths)));
                return (f, checked);
            }
            Ok(all) => {
                for (path, got) in &all {
                    checked += 1;
                    let want = expected(&case.entries, path);
                    if let Some(x) = compare(how, path, &want, got, &case.entries) {
                        f.push(x);
                        return (f, checked);
                    }
                }
            }
        }
    }
    (f, checked)
}

/// typed reads: a property keeps the type it was first read with
pub fn typing(rng: &mut Rng) -> (Vec<Finding>, u64) {
    let mut f = Vec::new();
    let yaml = "\"m.int\": 42\n\"m.text\": hello\n\"m.flag\": true\n\"m.list\": [1, 2, 3]\n";
    let order: Vec<u64> = (0..12).map(|_| rng.below(5)).collect();
    let keys = ["int", "text", "flag", "list"];
    let which: Vec<usize> = (0..12).map(|_| rng.usize_below(4)).collect();
    // half of the sequences: a second configuration is included after some of the reads; for properties that
    // already have a type it carries a value of another type, for the others another value of the same type
    let late_at: Option<usize> = if rng.chance(1, 2) { Some(rng.usize_below(12)) } else { None };
    let late_wild = rng.chance(1, 2);
    let r = vcommon::catch(|| {
        let mut out: Vec<Finding> = Vec::new();
        let mut sim = Sim::new(());
        sim.include_cfg(yaml);
        sim.node("m", Quiet);
        let m = sim.get(&"m".into()).expect("module");
        // model: the type each key was successfully read with
        let mut typed: [Option<u64>; 4] = [None; 4];
        let natural = [0u64, 1, 2, 3]; // int->u64, text->String, flag->bool, list->Vec<u32>
        let mut typed_before_late: [bool; 4] = [true; 4];
        for (step, (ty, ki)) in order.iter().zip(&which).enumerate() {
            if late_at == Some(step) {
                let same = ["43", "late", "false", "[9]"];
                let other = ["\"changed\"", "7", "[1]", "true"];
                let mut late = String::new();
                for k in 0..4 {
                    typed_before_late[k] = typed[k].is_some();
                    let prefix = if late_wild { "<any>" } else { "m" };
                    late.push_str(&format!("\"{prefix}.{}\": {}\n", keys[k], if typed[k].is_some() { other[k] } else { same[k] }));
                }
                sim.include_cfg(&late);
            }
            let key = keys[*ki];
            // returns (ok, rendered value)
            let (ok, val): (bool, String) = match ty {
                0 => match m.prop::<u64>(key) {
                    Ok(p) => (true, format!("{:?}", p.get())),
                    Err(_) => (false, String::new()),
                },
                1 => match m.prop::<String>(key) {
                    Ok(p) => (true, format!("{:?}", p.get())),
                    Err(_) => (false, String::new()),
                },
                2 => match m.prop::<bool>(key) {
                    Ok(p) => (true, format!("{:?}", p.get())),
                    Err(_) => (false, String::new()),
                },
                3 => match m.prop::<Vec<u32>>(key) {
                    Ok(p) => (true, format!("{:?}", p.get())),
                    Err(_) => (false, String::new()),
                },
                _ => match m.prop::<f64>(key) {
                    Ok(p) => (true, format!("{:?}", p.get())),
                    Err(_) => (false, String::new()),
                },
            };
            match typed[*ki] {
                Some(t0) if t0 != *ty => {
                    if ok {
                        out.push(("type-reinterpreted", format!("property '{key}' was first read as type #{t0} and then successfully read as type #{ty}: {val}")));
                    }
                }
                Some(_) => {
                    if !ok {
                        out.push(("type-lost", format!("property '{key}' can no longer be read with the type it was first read with (#{ty})")));
                    }
                }
                None => {
                    if ok {
                        typed[*ki] = Some(*ty);
                    } else if *ty == natural[*ki] {
                        out.push(("type-lost", format!("property '{key}' cannot be read with the type of its configured value (#{ty})")));
                    }
                }
            }
        }
        // after all the (partly failed) reads every key is still readable with its natural or first type
        for (ki, key) in keys.iter().enumerate() {
            let t = typed[ki].unwrap_or(natural[ki]);
            // a property without a type at the time of the late include may show either configured value
            let alt = late_at.is_some() && !typed_before_late[ki];
            let ok = match t {
                0 => m.prop::<u64>(key).map(|p| p.get() == Some(42) || (alt && p.get() == Some(43))).unwrap_or(false),
                1 => m.prop::<String>(key).map(|p| p.get().as_deref() == Some("hello") || (alt && p.get().as_deref() == Some("late"))).unwrap_or(false),
                2 => m.prop::<bool>(key).map(|p| p.get() == Some(true) || (alt && p.get() == Some(false))).unwrap_or(false),
                3 => m.prop::<Vec<u32>>(key).map(|p| p.get() == Some(vec![1, 2, 3]) || (alt && p.get() == Some(vec![9]))).unwrap_or(false),
                _ => m.prop::<f64>(key).map(|p| p.get().is_some()).unwrap_or(false),
            };
            if !ok {
                out.push(("type-lost", format!("after a sequence of typed reads property '{key}' is not readable as type #{t} with its configured value")));
            }
        }
        drop(m);
        drop(sim);
        out
    });
    match r {
        Ok(o) => f.extend(o),
        Err(p) => f.push(("panicked", format!("typed property reads panicked: {p}"))),
    }
    (f, 12 + u64::from(late_at.is_some()))
}

const PROBE_NAMES: &[&str] = &["addr", "log", "mtu", "type", "limits"];

/// One entry carries a structured (mapping) value `{lo: v, hi: 9}`. The statement of C17 speaks about which module an
/// entry reaches, not about how a mapping under a key is read further, so this probe only demands what follows from
/// the statement for every reading: every entry (the structured one included) reaches each module it addresses under
/// its property name with its own value. Additional keys are not judged here (des also reads the inner keys of a
/// mapping as further path components).
pub fn mapping_probe(rng: &mut Rng) -> (Vec<Finding>, u64) {
    let mut f: Vec<Finding> = Vec::new();
    let depth = 1 + rng.usize_below(3);
    let path: Vec<String> = (0..depth).map(|_| SEGS[rng.usize_below(5)].to_string()).collect();
    let n = 1 + rng.usize_below(4);
    let structured = rng.usize_below(n);
    // (key, value, structured?)
    let mut entries: Vec<(String, u64, bool)> = Vec::new();
    let mut names: Vec<&str> = PROBE_NAMES.to_vec();
    for e in 0..n {
        let mut k: Vec<String> = if e == structured || rng.chance(3, 4) { path.clone() } else { (0..1 + rng.usize_below(3)).map(|_| SEGS[rng.usize_below(5)].to_string()).collect() };
        for s in k.iter_mut() {
            if rng.chance(1, 4) {
                *s = ANY.to_string();
            }
        }
        // every entry has its own one-segment property name, none of which is a module name: no key is a prefix of another
        let name = names.remove(rng.usize_below(names.len()));
        k.push(name.to_string());
        entries.push((k.join("."), 1000 + e as u64, e == structured));
    }
    let mut yaml = String::new();
    for (k, v, st) in &entries {
        if *st {
            yaml.push_str(&format!("\"{k}\": {{lo: {v}, hi: 9}}\n"));
        } else {
            yaml.push_str(&format!("\"{k}\": {v}\n"));
        }
    }
    let flat: Vec<(String, u64)> = entries.iter().map(|(k, v, _)| (k.clone(), *v)).collect();
    let path_s = path.join(".");
    let want = expected(&flat, &path_s);
    let is_structured = |v: u64| entries.iter().any(|(_, x, st)| *x == v && *st);
    let read = |v: Option<serde_yml::Value>| -> Option<(u64, bool)> {
        let v = v?;
        if let Some(n) = v.as_u64() {
            return Some((n, false));
        }
        let lo = v.get("lo")?.as_u64()?;
        if v.get("hi")?.as_u64()? != 9 {
            return None;
        }
        Some((lo, true))
    };
    let judge = |how: &str, got: &BTreeMap<String, Option<(u64, bool)>>, f: &mut Vec<Finding>| {
        for (name, vals) in &want {
            match got.get(name) {
                None => f.push(("missing-key", format!("{how}: module '{path_s}' must receive property '{name}' but got only {:?}; configuration:\n{yaml}", got.keys().collect::<Vec<_>>()))),
                Some(Some((v, st))) if vals.contains(v) && *st == is_structured(*v) => {}
                Some(other) => f.push(("wrong-value", format!("{how}: module '{path_s}' property '{name}' reads {other:?} (value, structured), the matching entries have {vals:?}; configuration:\n{yaml}"))),
            }
        }
    };
    let r = vcommon::catch(|| {
        let mut out: Vec<(String, BTreeMap<String, Option<(u64, bool)>>)> = Vec::new();
        let value: serde_yml::Value = serde_yml::from_str(&yaml).expect("generated YAML parses");
        let cfg = Cfg::new(value);
        let segs: Vec<&str> = path.iter().map(String::as_str).collect();
        let mut props = cfg.capture_for_into(&segs);
        let keys = props.keys();
        out.push(("Cfg::capture_for_into (structured value)".to_string(), keys.iter().map(|k| (k.clone(), read(props.get_raw(k).as_value()))).collect()));
        for before in [true, false] {
            let mut sim = Sim::new(());
            if before {
                sim.include_cfg(&yaml);
            }
            for d in 1..=path.len() {
                sim.node(path[..d].join(".").as_str(), Quiet);
            }
            if !before {
                sim.include_cfg(&yaml);
            }
            let m = sim.get(&path_s.as_str().into()).expect("module exists");
            let keys = m.props_keys();
            let got = keys.iter().map(|k| (k.clone(), read(m.prop_raw(k).as_value()))).collect();
            drop(m);
            drop(sim);
            out.push((format!("include_cfg {} node creation (structured value)", if before { "before" } else { "after" }), got));
        }
        out
    });
    match r {
        Err(p) => f.push(("panicked", format!("a configuration with a structured value panicked: {p}; configuration:\n{yaml}"))),
        Ok(all) => {
            for (how, got) in &all {
                judge(how, got, &mut f);
            }
        }
    }
    (f, 3)
}

const SEGS: &[&str] = &["a", "al", "ali", "alice", "alicent", "b", "a1", "é", "alé", "日本", "x_y"];
const NAMES: &[&str] = &["addr", "log", "mtu", "a", "al", "alice", "type", "x_y", "é"];

pub fn gen_case(rng: &mut Rng) -> Case {
    let seg = |rng: &mut Rng| {
        let n = if rng.chance(1, 2) { 5 } else { SEGS.len() };
        SEGS[rng.usize_below(n)].to_string()
    };
    let n_paths = 1 + rng.usize_below(4);
    let mut paths: Vec<String> = Vec::new();
    for _ in 0..n_paths {
        let d = 1 + rng.usize_below(4);
        paths.push((0..d).map(|_| seg(rng)).collect::<Vec<_>>().join("."));
    }
    let n_entries = 1 + rng.usize_below(8);
    let mut entries: Vec<(String, u64)> = Vec::new();
    let mut used = BTreeSet::new();
    for e in 0..n_entries {
        // address a tested path (specific / with wildcards), a sibling with a longer or shorter name, or something unrelated
        let base: Vec<String> = if rng.chance(3, 4) { rng.pick(&paths).split('.').map(str::to_string).collect() } else { (0..1 + rng.usize_below(4)).map(|_| seg(rng)).collect() };
        let mut k: Vec<String> = base;
        // truncate or extend the addressed path
        match rng.below(6) {
            0 => {
                k.truncate(1 + rng.usize_below(k.len()));
            }
            1 => k.push(seg(rng)),
            _ => {}
        }
        for s in k.iter_mut() {
            match rng.below(8) {
                0 | 1 => *s = ANY.to_string(),
                2 => *s = seg(rng),
                _ => {}
            }
        }
        let name_len = 1 + rng.usize_below(2);
        for _ in 0..name_len {
            k.push(NAMES[rng.usize_below(NAMES.len())].to_string());
        }
        let key = k.join(".");
        if used.insert(key.clone()) {
            entries.push((key, 1000 + e as u64));
        }
    }
    Case { entries, paths }
}

/// the generator avoids one shape on purpose (see DESIGN.md): a key that is at the same time a complete entry
/// and the proper prefix of a wildcard entry; it is reported separately through `known_shape`
pub fn has_key_that_is_prefix_of_wildcard_entry(case: &Case) -> bool {
    case.entries.iter().any(|(k, _)| {
        case.entries.iter().any(|(other, _)| {
            other != k && other.starts_with(&format!("{k}.")) && other[k.len()..].contains(ANY)
        })
    })
}

fn case_hash(c: &Case) -> u64 {
    let mut h = Hasher64::new();
    h.str(&serde_json::to_string(c).unwrap());
    h.finish()
}

pub fn case_json(case: &Case) -> Value {
    json!({"driver": "desmon", "sub": "c17", "case": serde_json::to_value(case).unwrap()})
}

pub fn cmd(args: &Args) -> Report {
    let mut rep = Report::new("C17");
    let mut rng = Rng::new(args.stream_seed("c17"));
    let cases = args.cases(1_200_000, 16_000_000);
    for i in 0..cases {
        let case = gen_case(&mut rng);
        vcommon::mark_case(&format!("c17:{}:{}:{}", args.seed, args.shard, i));
        let (findings, checked) = execute(&case);
        rep.eval();
        rep.count("module_property_sets_compared", checked);
        let wild = case.entries.iter().filter(|(k, _)| k.contains(ANY)).count();
        rep.count("wildcard_entries", wild as u64);
        rep.count("entries", case.entries.len() as u64);
        let nonempty = case.paths.iter().filter(|p| !expected(&case.entries, p).is_empty()).count();
        rep.count("paths_with_matching_entries", nonempty as u64);
        if case.paths.iter().any(|p| !p.is_ascii()) || case.entries.iter().any(|(k, _)| !k.is_ascii()) {
            rep.count("cases_with_non_ascii_names", 1);
        }
        let prefix_siblings = case.entries.iter().any(|(k, _)| {
            let first = k.split('.').next().unwrap_or("");
            case.paths.iter().any(|p| {
                let pf = p.split('.').next().unwrap_or("");
                pf != first && (pf.starts_with(first) || first.starts_with(pf)) && first != ANY
            })
        });
        if prefix_siblings {
            rep.count("cases_with_prefix_sharing_names", 1);
        }
        if findings.is_empty() && nonempty > 0 && wild > 0 {
            rep.nontrivial(case_hash(&case));
            if rep.wants_sample() && case.entries.len() <= 4 {
                let exp: Vec<_> = case.paths.iter().map(|p| (p.clone(), expected(&case.entries, p).keys().cloned().collect::<Vec<_>>())).collect();
                rep.sample(json!({"case": serde_json::to_value(&case).unwrap(), "expected_keys": exp}));
            }
        }
        let known_shape = has_key_that_is_prefix_of_wildcard_entry(&case);
        if known_shape {
            rep.count("cases_with_entry_that_prefixes_a_wildcard_entry", 1);
        }
        let mut stop = false;
        for (kind, detail) in findings.into_iter().take(1) {
            if kind == "missing-key-entry-is-prefix-of-wildcard-entry" {
                rep.violation_soft("C17/missing-key-entry-is-prefix-of-wildcard-entry", &detail, case_json(&case));
            } else if !rep.violation(&format!("C17/{kind}"), &detail, case_json(&case)) {
                stop = true;
            }
        }
        if i % 20 == 0 {
            let (f, n) = typing(&mut rng);
            rep.count("typed_reads", n);
            if n > 12 {
                rep.count("typed_sequences_with_a_late_include", 1);
            }
            for (kind, detail) in f.into_iter().take(1) {
                rep.violation(&format!("C17/{kind}"), &detail, json!({"driver": "desmon", "sub": "c17", "typing": true}));
            }
        }
        if i % 20 == 10 {
            let (f, n) = mapping_probe(&mut rng);
            rep.count("structured_value_property_sets_checked", n);
            for (kind, detail) in f.into_iter().take(1) {
                rep.violation(&format!("C17/{kind}"), &detail, json!({"driver": "desmon", "sub": "c17", "structured": true}));
            }
        }
        if stop {
            break;
        }
    }
    rep
}

pub fn replay(v: &Value) -> i32 {
    if v.get("typing").is_some() {
        let mut bad = false;
        for s in 0..200 {
            let mut rng = Rng::new(s);
            let (f, _) = typing(&mut rng);
            for (k, d) in f {
                println!("VIOLATION reproduced: C17/{k}: {d}");
                bad = true;
            }
            if bad {
                break;
            }
        }
        return i32::from(bad);
    }
    if v.get("structured").is_some() {
        for s in 0..2000 {
            let mut rng = Rng::new(s);
            let (f, _) = mapping_probe(&mut rng);
            if let Some((k, d)) = f.into_iter().next() {
                println!("VIOLATION reproduced: C17/{k}: {d}");
                return 1;
            }
        }
        println!("no violation");
        return 0;
    }
    let case: Case = serde_json::from_value(v.get("case").expect("case").clone()).expect("case");
    println!("configuration:\n{}", yaml_of(&case.entries));
    for p in &case.paths {
        println!("module {p}: expected {:?}", expected(&case.entries, p));
    }
    let (f, _) = execute(&case);
    if f.is_empty() {
        println!("no violation");
        0
    } else {
        for (k, d) in f {
            println!("VIOLATION reproduced: C17/{k}: {d}");
        }
        1
    }
}
