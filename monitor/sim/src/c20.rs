//! C20 — dropping a simulation releases every module, task and message exactly once.
//!
//! Identity tokens (`vcommon::tracked::Tracked`) are embedded in module structs, task captures,
//! message bodies (in the event set, in channel queues, held by modules, returned as remaining
//! events), processing elements and channel probes of generated simulations. The simulation is
//! stopped at a generated point (builder dropped, runtime dropped before run, stepped and
//! abandoned, event / time limit, completion, error exit) and everything is dropped: every token
//! must have been dropped exactly once. A follow-up simulation must then behave as in a fresh process.

use des::net::channel::{ChannelDropBehaviour, ChannelMetrics, ChannelProbe};
use des::net::processing::ProcessingElement;
use des::prelude::*;
use des::time::sleep;
use serde::{Deserialize, Serialize};
use serde_json::{json, Value};
use std::cell::RefCell;
use tokio::sync::mpsc;
use vcommon::tracked::{self, Tracked};
use vcommon::{Args, Hasher64, Report, Rng};

const MS: u64 = 1_000_000;
const K_SELF: u16 = 61;
const K_DATA: u16 = 62;

#[derive(Debug, Clone)]
struct Body(#[allow(dead_code)] Tracked, usize);
impl MessageBody for Body {
    fn byte_len(&self) -> usize {
        self.1
    }
}

/// a zero-sized payload type with a destructor (token / guard): creations and drops are counted by the registry
#[derive(Debug)]
struct ZstBody;
impl ZstBody {
    fn create() -> Self {
        tracked::anon_created("zero-sized-message-body");
        ZstBody
    }
}
impl Clone for ZstBody {
    fn clone(&self) -> Self {
        ZstBody::create()
    }
}
impl Drop for ZstBody {
    fn drop(&mut self) {
        tracked::anon_dropped("zero-sized-message-body");
    }
}
impl MessageBody for ZstBody {
    fn byte_len(&self) -> usize {
        8
    }
}

#[derive(Debug, Clone, Copy, Serialize, Deserialize, PartialEq)]
pub enum TaskKind {
    /// sleeps in a loop forever
    Sleeper,
    /// waits on a channel that is never fed
    Receiver,
    Pending,
    /// finishes after a few sleeps
    Finite,
    /// spawn_local variant of the sleeper
    LocalSleeper,
}

#[derive(Debug, Clone, Copy, Serialize, Deserialize, PartialEq)]
pub enum Twist {
    None,
    Shutdown,
    ShutdownRestart,
    Panic,
}

#[derive(Debug, Clone, Serialize, Deserialize, PartialEq)]
pub struct ModPlan {
    /// Some(p): child of module p (path p.c<i>), None: top level
    pub parent: Option<usize>,
    pub self_msgs: Vec<u64>,
    /// messages sent on the ring gate at start (body sizes)
    pub burst: Vec<usize>,
    pub tasks: Vec<TaskKind>,
    /// forwards received data messages while ttl > 0
    pub forward: bool,
    /// keeps every n-th received message in its state
    pub hold_every: usize,
    /// what happens at the k-th handled message
    pub twist: Twist,
    pub twist_at: usize,
    pub send_at_end: bool,
    pub element: bool,
    pub probe: bool,
}

#[derive(Debug, Clone, Copy, Serialize, Deserialize, PartialEq)]
pub enum Stop {
    BuilderDropped,
    RuntimeDroppedBeforeRun,
    /// start, dispatch n events, then drop without finish
    SteppedAndAbandoned(usize),
    /// start, dispatch n events, finish
    SteppedAndFinished(usize),
    MaxItr(usize),
    MaxTime(u64),
    Complete,
}

#[derive(Debug, Clone, Serialize, Deserialize, PartialEq)]
pub struct Case {
    pub mods: Vec<ModPlan>,
    /// (bitrate, latency) of the ring channels, None = plain connections
    pub channel: Option<(usize, u64)>,
    pub stop: Stop,
    /// a closed ring of this many gates (every gate a transit gate, spread over the modules), never used for
    /// traffic, one hop with a channel that carries a probe; 0 = none
    #[serde(default)]
    pub gate_ring: usize,
    /// extra nodes built from the function blocks of des (no gates): 0 = AsyncFn::new, 1 = AsyncFn::failable,
    /// 2 = AsyncFn::io (task blocked on its receiver for ever), 3 = HandlerFn, 4 = ModuleFn; each holds tokens
    #[serde(default)]
    pub blocks: Vec<u8>,
}

thread_local! {
    static TRACE: RefCell<Vec<(usize, u64, u16)>> = const { RefCell::new(Vec::new()) };
    /// event limit that ends models with endless tasks (small under the interpreter)
    static SAFETY_NET: std::cell::Cell<usize> = const { std::cell::Cell::new(20_000) };
}

struct El(#[allow(dead_code)] Tracked);
impl ProcessingElement for El {}

struct Probe(#[allow(dead_code)] Tracked);
impl ChannelProbe for Probe {
    fn on_message_transmit(&mut self, _: &ChannelMetrics, _: &Message) {}
}

struct Node {
    idx: usize,
    plan: ModPlan,
    #[allow(dead_code)]
    token: Tracked,
    held: Vec<Message>,
    handled: usize,
    ring: bool,
}

impl Module for Node {
    fn stack(&self, mut stack: des::net::processing::ProcessingStack) -> des::net::processing::ProcessingStack {
        if self.plan.element {
            stack.append(El(Tracked::new("processing-element")));
        }
        stack
    }

    fn reset(&mut self) {
        self.held.clear();
    }

    fn at_sim_start(&mut self, _: usize) {
        for (i, t) in self.plan.self_msgs.iter().enumerate() {
            if i % 2 == 1 {
                // every second self message carries a zero-sized payload that has a destructor
                schedule_in(Message::default().kind(K_SELF).with_content(ZstBody::create()), Duration::from_nanos(*t));
            } else {
                schedule_in(Message::default().kind(K_SELF).with_content(Body(Tracked::new("self-message-body"), 8)), Duration::from_nanos(*t));
            }
        }
        if self.ring {
            for size in &self.plan.burst {
                send(Message::default().kind(K_DATA).id(3).with_content(Body(Tracked::new("data-message-body"), *size)), "out");
            }
            if self.plan.probe {
                if let Some(ch) = current().gate("out", 0).and_then(|g| g.channel()) {
                    ch.attach_probe(Probe(Tracked::new("channel-probe")));
                }
            }
        }
        for kind in &self.plan.tasks {
            let token = Tracked::new("task-capture");
            match kind {
                TaskKind::Sleeper => {
                    tokio::spawn(async move {
                        let _t = token;
                        loop {
                            sleep(Duration::from_nanos(7 * MS)).await;
                        }
                    });
                }
                TaskKind::LocalSleeper => {
                    tokio::task::spawn_local(async move {
                        let _t = token;
                        loop {
                            sleep(Duration::from_nanos(11 * MS)).await;
                        }
                    });
                }
                TaskKind::Receiver => {
                    let (tx, mut rx) = mpsc::channel::<Body>(4);
                    // the sender lives in the task as well: the channel never closes, the task never finishes
                    tokio::spawn(async move {
                        let _t = token;
                        let _tx = tx;
                        let _ = rx.recv().await;
                    });
                }
                TaskKind::Pending => {
                    tokio::spawn(async move {
                        let _t = token;
                        std::future::pending::<()>().await;
                    });
                }
                TaskKind::Finite => {
                    let idx = self.idx;
                    let h = tokio::spawn(async move {
                        let _t = token;
                        for step in 0..3u16 {
                            sleep(Duration::from_nanos(5 * MS)).await;
                            // the wake-ups of the task are part of the observable behaviour (follow-up simulation:
                            // "behaves as in a fresh process" includes its timers)
                            TRACE.with(|t| t.borrow_mut().push((idx, SimTime::now().as_nanos() as u64, 9000 + step)));
                        }
                    });
                    current().try_join(h);
                }
            }
        }
    }

    fn handle_message(&mut self, msg: Message) {
        self.handled += 1;
        TRACE.with(|t| t.borrow_mut().push((self.idx, SimTime::now().as_nanos() as u64, msg.header().kind)));
        if self.handled == self.plan.twist_at {
            match self.plan.twist {
                Twist::None => {}
                Twist::Shutdown => current().shutdown(),
                Twist::ShutdownRestart => current().shutdow_and_restart_in(Duration::from_nanos(9 * MS)),
                Twist::Panic => panic!("injected panic in m{}", self.idx),
            }
        }
        let kind = msg.header().kind;
        let ttl = msg.header().id;
        if self.plan.hold_every > 0 && self.handled % self.plan.hold_every == 0 {
            self.held.push(msg);
        } else if kind == K_DATA && self.plan.forward && ttl > 0 && self.ring {
            send(msg.id(ttl - 1), "out");
        }
    }

    fn at_sim_end(&mut self) -> Result<(), RuntimeError> {
        if self.plan.send_at_end {
            // no further events will be processed: these messages stay wherever the simulator buffers them
            schedule_in(Message::default().kind(K_SELF).with_content(Body(Tracked::new("message-sent-at-teardown"), 1)), Duration::from_nanos(MS));
            if self.ring {
                send(Message::default().kind(K_DATA).with_content(Body(Tracked::new("message-sent-at-teardown"), 1)), "out");
            }
        }
        Ok(())
    }
}

fn path_of(case: &Case, i: usize) -> String {
    match case.mods[i].parent {
        None => format!("m{i}"),
        Some(p) => format!("{}.c{i}", path_of(case, p)),
    }
}

pub struct Outcome {
    pub trace: Vec<(usize, u64, u16)>,
    pub what: String,
    pub panicked: Option<String>,
    pub remaining: usize,
}

pub fn execute(case: &Case) -> Outcome {
    TRACE.with(|t| t.borrow_mut().clear());
    let mut what = String::new();
    let mut remaining = 0usize;
    let res = vcommon::catch(|| {
        let mut sim = Sim::new(());
        let ring: Vec<usize> = (0..case.mods.len()).filter(|i| case.mods[*i].parent.is_none()).collect();
        for i in 0..case.mods.len() {
            let is_ring = case.mods[i].parent.is_none() && ring.len() >= 1;
            sim.node(
                path_of(case, i).as_str(),
                Node { idx: i, plan: case.mods[i].clone(), token: Tracked::new("module-state"), held: Vec::new(), handled: 0, ring: is_ring },
            );
        }
        // ring over the top-level modules (a single one loops back to itself through two gates)
        for (k, i) in ring.iter().enumerate() {
            let j = ring[(k + 1) % ring.len()];
            let a = sim.gate(path_of(case, *i).as_str(), "out");
            let b = sim.gate(path_of(case, j).as_str(), "in");
            let ch = case.channel.map(|(bitrate, lat)| Channel::new(ChannelMetrics::new(bitrate, Duration::from_nanos(lat), Duration::ZERO, ChannelDropBehaviour::Queue(None))));
            a.connect(b, ch);
        }
        for (bi, kind) in case.blocks.iter().enumerate() {
            use des::net::blocks::{AsyncFn, HandlerFn, ModuleFn};
            let path = format!("blk{bi}");
            match kind {
                0 => {
                    sim.node(path.as_str(), AsyncFn::new(|mut rx| {
                        let token = Tracked::new("async-fn-task");
                        async move {
                            let _t = token;
                            while rx.recv().await.is_some() {}
                        }
                    }));
                }
                1 => {
                    sim.node(path.as_str(), AsyncFn::failable(|mut rx| {
                        let token = Tracked::new("async-fn-failable-task");
                        async move {
                            let _t = token;
                            while rx.recv().await.is_some() {}
                            Ok::<(), std::io::Error>(())
                        }
                    }));
                }
                2 => {
                    sim.node(path.as_str(), AsyncFn::io(|mut rx| {
                        let token = Tracked::new("async-fn-io-task");
                        async move {
                            let _t = token;
                            // a timer first, then blocked on the receiver
                            sleep(Duration::from_nanos(3 * MS)).await;
                            while rx.recv().await.is_some() {}
                            Ok(())
                        }
                    }));
                }
                3 => {
                    let token = Tracked::new("handler-fn-capture");
                    sim.node(path.as_str(), HandlerFn::new(move |_msg| {
                        let _ = &token;
                    }));
                }
                _ => {
                    sim.node(
                        path.as_str(),
                        ModuleFn::new(|| Tracked::new("module-fn-state"), |_state: &mut Tracked, _msg| {}),
                    );
                }
            }
        }
        if case.gate_ring >= 3 {
            let k = case.gate_ring;
            let gates: Vec<GateRef> = (0..k).map(|j| sim.gate(path_of(case, j % case.mods.len()).as_str(), &format!("r{j}"))).collect();
            for j in 0..k {
                // every hop of the ring carries a channel with a probe (which pair of gates ends up holding each other
                // depends on the order of the connect calls)
                let ch = {
                    let ch = Channel::new(ChannelMetrics::new(1_000_000, Duration::from_nanos(MS), Duration::ZERO, ChannelDropBehaviour::Queue(None)));
                    ch.attach_probe(Probe(Tracked::new("channel-probe-on-gate-ring")));
                    Some(ch)
                };
                gates[j].clone().connect(gates[(j + 1) % k].clone(), ch);
            }
        }
        if case.stop == Stop::BuilderDropped {
            what = "builder dropped".into();
            drop(sim);
            return;
        }
        let mut b = Builder::seeded(4).quiet();
        match case.stop {
            Stop::MaxItr(n) => b = b.max_itr(n),
            Stop::MaxTime(t) => b = b.max_time(SimTime::from_duration(Duration::from_nanos(t))),
            _ => {}
        }
        // a safety net against runaway models; hitting it is just another limit stop
        b = b.max_itr(match case.stop {
            Stop::MaxItr(n) => n,
            _ => SAFETY_NET.with(std::cell::Cell::get),
        });
        let mut rt = b.build(sim.freeze());
        match case.stop {
            Stop::RuntimeDroppedBeforeRun => {
                what = "runtime dropped before run".into();
                drop(rt);
            }
            Stop::SteppedAndAbandoned(n) => {
                rt.start();
                rt.dispatch_n_events(n);
                what = format!("stepped {n} events and abandoned with {} remaining", rt.num_events_remaining());
                drop(rt);
            }
            Stop::SteppedAndFinished(n) => {
                rt.start();
                rt.dispatch_n_events(n);
                let r = rt.finish();
                match r {
                    Ok((app, _, prof)) => {
                        remaining = prof.remaining.len();
                        what = format!("stepped {n} events, finished with {remaining} remaining events");
                        drop(prof);
                        drop(app);
                    }
                    Err(e) => {
                        what = format!("stepped, finished with error ({} entries)", e.len());
                        drop(e);
                    }
                }
            }
            _ => match rt.run() {
                Ok((app, t, prof)) => {
                    remaining = prof.remaining.len();
                    what = format!("run returned at {t} with {remaining} remaining events");
                    // drop in an unusual order on purpose
                    drop(app);
                    drop(prof);
                }
                Err(e) => {
                    what = format!("run returned an error with {} entries", e.len());
                    drop(e);
                }
            },
        }
    });
    let trace = TRACE.with(|t| std::mem::take(&mut *t.borrow_mut()));
    Outcome { trace, what, panicked: res.err(), remaining }
}

/// a fixed little simulation for "a new simulation behaves as in a fresh process"
pub fn followup() -> (Vec<(usize, u64, u16)>, tracked::Summary) {
    tracked::reset();
    let case = Case {
        mods: vec![
            ModPlan { parent: None, self_msgs: vec![2 * MS, 6 * MS], burst: vec![100, 200], tasks: vec![TaskKind::Finite], forward: true, hold_every: 0, twist: Twist::None, twist_at: 0, send_at_end: false, element: true, probe: false },
            ModPlan { parent: None, self_msgs: vec![3 * MS], burst: vec![50], tasks: vec![], forward: true, hold_every: 3, twist: Twist::None, twist_at: 0, send_at_end: false, element: false, probe: true },
        ],
        channel: Some((1_000_000, MS)),
        stop: Stop::Complete,
        gate_ring: 0,
        blocks: Vec::new(),
    };
    let o = execute(&case);
    (o.trace, tracked::summary())
}

pub type Finding = (&'static str, String);

pub fn check(case: &Case, reference: &[(usize, u64, u16)]) -> (Vec<Finding>, Outcome, tracked::Summary) {
    check_with(case, Some(reference))
}

/// `reference: None` skips the follow-up simulation (interpreter runs, where it dominates the cost)
pub fn check_with(case: &Case, reference: Option<&[(usize, u64, u16)]>) -> (Vec<Finding>, Outcome, tracked::Summary) {
    let mut f = Vec::new();
    tracked::reset();
    let o = execute(case);
    let summary = tracked::summary();
    if let Some(p) = &o.panicked {
        f.push(("panicked", format!("building / running / dropping the simulation panicked: {p}")));
    }
    if !summary.double_drops.is_empty() {
        f.push(("dropped-twice", format!("{} values were dropped twice ({}); stop point: {}", summary.double_drops.len(), summary.describe(), o.what)));
    }
    if !summary.alive.is_empty() {
        let mut tags: Vec<&str> = summary.alive.iter().map(|(_, t)| *t).collect();
        tags.sort_unstable();
        tags.dedup();
        // one signature per kind of leaked value
        f.push((
            "alive-after-drop",
            format!("after dropping everything {} values are still alive: {} (kinds {:?}); stop point: {}", summary.alive.len(), summary.describe(), tags, o.what),
        ));
    }
    // a new simulation in the same process
    let Some(reference) = reference else {
        if des::verif::statics() != (false, 0, false) {
            f.push(("statics-dirty", format!("statics after the drop: {:?} (context placed, buffered events, globals attached)", des::verif::statics())));
        }
        return (f, o, summary);
    };
    let after = vcommon::catch(followup);
    match after {
        Err(p) => f.push(("followup-failed", format!("a simulation created after the drop panicked: {p}"))),
        Ok((trace, s)) => {
            if trace != reference {
                f.push(("followup-differs", format!("a simulation created after the drop does not behave as in a fresh process ({} vs {} trace entries; stop point: {})", trace.len(), reference.len(), o.what)));
            }
            if !s.clean() {
                f.push(("followup-differs", format!("the follow-up simulation itself leaks: {}", s.describe())));
            }
        }
    }
    if des::verif::statics() != (false, 0, false) {
        f.push(("statics-dirty", format!("statics after the drop: {:?} (context placed, buffered events, globals attached)", des::verif::statics())));
    }
    (f, o, summary)
}

pub fn gen_case(rng: &mut Rng, small: bool) -> Case {
    let n = if small { 1 + rng.usize_below(3) } else { 1 + rng.usize_below(6) };
    let mut mods: Vec<ModPlan> = Vec::new();
    for i in 0..n {
        let parent = if i > 0 && rng.chance(1, 3) { Some(rng.usize_below(i)) } else { None };
        let n_tasks = rng.usize_below(4);
        mods.push(ModPlan {
            parent,
            self_msgs: (0..rng.usize_below(5)).map(|_| (1 + rng.below(30)) * MS).collect(),
            burst: (0..rng.usize_below(6)).map(|_| *rng.pick(&[0usize, 64, 500, 1500])).collect(),
            tasks: (0..n_tasks).map(|_| *rng.pick(&[TaskKind::Sleeper, TaskKind::Receiver, TaskKind::Pending, TaskKind::Finite, TaskKind::LocalSleeper])).collect(),
            forward: rng.chance(2, 3),
            hold_every: if rng.chance(1, 3) { 1 + rng.usize_below(3) } else { 0 },
            twist: match rng.below(8) {
                0 => Twist::Shutdown,
                1 => Twist::ShutdownRestart,
                2 => Twist::Panic,
                _ => Twist::None,
            },
            twist_at: 1 + rng.usize_below(4),
            send_at_end: rng.chance(1, 4),
            element: rng.chance(1, 3),
            probe: rng.chance(1, 4),
        });
    }
    let channel = match rng.below(4) {
        0 => None,
        1 => Some((0, 2 * MS)),
        // slow links: messages pile up in the channel queue
        2 => Some((100_000, MS)),
        _ => Some((1_000_000, 0)),
    };
    let stop = match rng.below(12) {
        0 => Stop::BuilderDropped,
        1 => Stop::RuntimeDroppedBeforeRun,
        2 => Stop::SteppedAndAbandoned(rng.usize_below(30)),
        3 => Stop::SteppedAndFinished(rng.usize_below(30)),
        4..=6 => Stop::MaxItr(rng.usize_below(40)),
        7..=8 => Stop::MaxTime(rng.below(40) * MS + rng.below(2) * 500_000),
        _ => Stop::Complete,
    };
    let gate_ring = if rng.chance(1, 5) { 3 + rng.usize_below(4) } else { 0 };
    let blocks: Vec<u8> = if rng.chance(1, 4) { (0..1 + rng.usize_below(3)).map(|_| rng.below(5) as u8).collect() } else { Vec::new() };
    Case { mods, channel, stop, gate_ring, blocks }
}

fn case_hash(c: &Case) -> u64 {
    let mut h = Hasher64::new();
    h.str(&serde_json::to_string(c).unwrap());
    h.finish()
}

pub fn case_json(case: &Case) -> Value {
    json!({"driver": "desmon", "sub": "c20", "case": serde_json::to_value(case).unwrap()})
}

// -------------------------------------------------------------------------------------------------
// a run that ended with errors: two relays whose send on their transit gate was rejected, backlog between them
// -------------------------------------------------------------------------------------------------

struct FailSrc {
    n: usize,
}
impl Module for FailSrc {
    fn at_sim_start(&mut self, _: usize) {
        for _ in 0..self.n {
            send(Message::default().kind(K_DATA).with_content(Body(Tracked::new("data-message-body"), 500)), "out");
        }
    }
}
struct FailRelay {
    fails: bool,
    _state: Tracked,
}
impl Module for FailRelay {
    fn at_sim_start(&mut self, _: usize) {
        if self.fails {
            // the documented panic: "g" is a transit gate (caught by the module harness, run() returns an error)
            send(Message::default().kind(K_DATA).with_content(Body(Tracked::new("data-message-body"), 10)), "g");
        }
    }
}
struct FailDst {
    _state: Tracked,
}
impl Module for FailDst {}

/// src.out -> r1.g ==slow queueing channel==> r2.g -> dst.in; r1 and / or r2 try to send onto their transit gate at
/// start-up; the run is stopped by a time limit with messages on the wire and in the channel queue
pub fn failed_relays_probe(rng: &mut Rng) -> (Vec<Finding>, tracked::Summary) {
    tracked::reset();
    let (f1, f2) = *rng.pick(&[(true, true), (true, false), (false, true), (true, true)]);
    let n = 2 + rng.usize_below(4);
    let stop_ns = *rng.pick(&[1_000_000_000u64, 2_500_000_000]);
    let res = vcommon::catch(move || {
        let mut sim = Sim::new(());
        sim.node("src", FailSrc { n });
        sim.node("r1", FailRelay { fails: f1, _state: Tracked::new("module-state") });
        sim.node("r2", FailRelay { fails: f2, _state: Tracked::new("module-state") });
        sim.node("dst", FailDst { _state: Tracked::new("module-state") });
        let (o, g1, g2, i) = (sim.gate("src", "out"), sim.gate("r1", "g"), sim.gate("r2", "g"), sim.gate("dst", "in"));
        o.connect(g1.clone(), None);
        let slow = ChannelMetrics::new(4_000, Duration::from_nanos(MS), Duration::ZERO, ChannelDropBehaviour::Queue(None));
        g1.connect(g2.clone(), Some(Channel::new(slow)));
        g2.connect(i, None);
        let rt = Builder::seeded(2).quiet().max_time(SimTime::from_duration(Duration::from_nanos(stop_ns))).build(sim.freeze());
        match rt.run() {
            Ok((app, _, prof)) => {
                drop(prof);
                drop(app);
                false
            }
            Err(e) => {
                drop(e);
                true
            }
        }
    });
    let summary = tracked::summary();
    let mut f = Vec::new();
    match res {
        Err(p) => f.push(("panicked", format!("a simulation whose relays send onto their transit gates panicked out of run(): {p}"))),
        Ok(errored) => {
            if !errored {
                f.push(("panicked", "a rejected send on a transit gate did not make run() return an error".into()));
            }
        }
    }
    if !summary.double_drops.is_empty() {
        f.push(("dropped-twice", format!("run ended with errors (relays r1 / r2 fail: {f1} / {f2}): {}", summary.describe())));
    }
    if !summary.alive.is_empty() {
        f.push(("alive-after-drop", format!("run ended with errors (relays r1 / r2 fail: {f1} / {f2}, {n} messages, stopped at {stop_ns} ns with a backlog in the channel): after dropping everything {} values are still alive: {}", summary.alive.len(), summary.describe())));
    }
    (f, summary)
}

pub fn cmd(args: &Args) -> Report {
    let mut rep = Report::new("C20");
    let mut rng = Rng::new(args.stream_seed("c20"));
    let cases = args.cases(48_000, 900_000);
    let (reference, ref_summary) = followup();
    if !ref_summary.clean() {
        rep.violation("C20/alive-after-drop", &format!("the reference simulation leaks in a fresh process: {}", ref_summary.describe()), json!({"driver": "desmon", "sub": "c20", "followup": true}));
    }
    let small_mode = args.extra.contains_key("small");
    if small_mode {
        SAFETY_NET.with(|s| s.set(120));
    }
    let mut stop = false;
    for i in 0..cases {
        if i % 50 == 7 && !small_mode {
            let (findings, summary) = failed_relays_probe(&mut rng);
            rep.count("runs_ended_with_errors_by_rejected_sends_on_transit_gates", 1);
            rep.count("tokens_created", summary.created);
            rep.count("tokens_dropped_exactly_once", summary.dropped);
            for (kind, detail) in findings.into_iter().take(1) {
                if !rep.violation(&format!("C20/{kind}"), &detail, json!({"driver": "desmon", "sub": "c20", "failed_relays_probe": true, "note": "re-run the check with the same seed"})) {
                    stop = true;
                }
            }
        }
        let small = small_mode || i % 4 == 0;
        let base = gen_case(&mut rng, small);
        // small models: every event-count prefix
        let variants: Vec<Case> = if small && !small_mode && i % 8 == 0 {
            rep.count("models_with_every_limit_prefix", 1);
            (0..25).map(|k| Case { stop: Stop::MaxItr(k), ..base.clone() }).chain(std::iter::once(Case { stop: Stop::Complete, ..base.clone() })).collect()
        } else {
            vec![base]
        };
        for case in variants {
            vcommon::mark_case(&format!("c20:{}:{}:{}", args.seed, args.shard, i));
            // interpreter runs: the follow-up simulation only after every fourth case
            let (findings, o, summary) = if small_mode && i % 4 != 3 { check_with(&case, None) } else { check(&case, &reference) };
            rep.eval();
            rep.count("tokens_created", summary.created);
            rep.count("tokens_dropped_exactly_once", summary.dropped);
            rep.count("remaining_events_returned", o.remaining as u64);
            rep.count("self_messages_with_zero_sized_payload_planned", case.mods.iter().map(|m| (m.self_msgs.len() / 2) as u64).sum());
            let key = match case.stop {
                Stop::BuilderDropped => "stops_builder_dropped",
                Stop::RuntimeDroppedBeforeRun => "stops_runtime_dropped_before_run",
                Stop::SteppedAndAbandoned(_) => "stops_stepped_and_abandoned",
                Stop::SteppedAndFinished(_) => "stops_stepped_and_finished",
                Stop::MaxItr(_) => "stops_event_limit",
                Stop::MaxTime(_) => "stops_time_limit",
                Stop::Complete => "stops_completed",
            };
            rep.count(key, 1);
            if o.what.contains("error") {
                rep.count("stops_error_exit", 1);
            }
            if case.mods.iter().any(|m| matches!(m.twist, Twist::Shutdown | Twist::ShutdownRestart)) {
                rep.count("models_with_shutdown", 1);
            }
            if case.mods.iter().any(|m| m.send_at_end) {
                rep.count("models_sending_at_teardown", 1);
            }
            if case.channel.is_some_and(|c| c.0 == 100_000) {
                rep.count("models_with_channel_backlog", 1);
            }
            if case.gate_ring > 0 {
                rep.count("models_with_closed_gate_ring", 1);
            }
            if !case.blocks.is_empty() {
                rep.count("models_with_function_block_nodes", 1);
            }
            if findings.is_empty() && summary.created >= 5 {
                rep.nontrivial(case_hash(&case));
                if rep.wants_sample() && case.mods.len() <= 2 && o.remaining > 0 {
                    rep.sample(json!({"case": serde_json::to_value(&case).unwrap(), "stop": o.what, "tokens": summary.created}));
                }
            }
            for (kind, detail) in findings.into_iter().take(2) {
                if !rep.violation(&format!("C20/{kind}"), &detail, case_json(&case)) {
                    stop = true;
                }
            }
            if stop {
                break;
            }
        }
        if stop {
            break;
        }
    }
    rep
}

pub fn replay(v: &Value) -> i32 {
    let case: Case = serde_json::from_value(v.get("case").expect("case").clone()).expect("case");
    println!("case: {}", serde_json::to_string_pretty(&case).unwrap());
    let (reference, _) = followup();
    let (f, o, s) = check(&case, &reference);
    println!("stop point: {}; tokens: {}", o.what, s.describe());
    if f.is_empty() {
        println!("no violation");
        0
    } else {
        for (k, d) in f {
            println!("VIOLATION reproduced: C20/{k}: {d}");
        }
        1
    }
}
