//! C19 — topology views mirror the gate graph and answer graph queries correctly.
//!
//! A module graph is declared (modules, gate chains with transit gates, multi-edges, self loops,
//! disconnected parts, unconnected gates), built with the public builder API, and every view
//! (`Globals::topology`, `Topology::spanned(root)` for every root, filtered views, `dijkstra(src)`
//! for every source) is compared with a reference digraph derived from the declaration.

use des::net::topology::Topology;
use des::prelude::*;
use serde::{Deserialize, Serialize};
use serde_json::{json, Value};
use std::collections::{BTreeMap, BTreeSet, VecDeque};
use vcommon::{Args, Hasher64, Report, Rng};

#[derive(Debug, Clone, Serialize, Deserialize, PartialEq)]
pub struct Chain {
    /// endpoint modules (indices into `modules`)
    pub a: usize,
    pub b: usize,
    /// owners of the transit gates between them
    pub transit: Vec<usize>,
}

#[derive(Debug, Clone, Serialize, Deserialize, PartialEq)]
pub struct Case {
    /// module paths, parents before children
    pub modules: Vec<String>,
    pub chains: Vec<Chain>,
    /// modules that get an additional unconnected gate
    pub loose_gates: Vec<usize>,
    /// node filter: keep module i iff bit i is set
    pub node_filter: u32,
    /// edge filter: drop the forward direction of chain i iff bit i is set
    pub edge_filter: u32,
    /// module i creates its chain endpoints as members of one gate cluster `port[..]` iff bit i is set
    #[serde(default)]
    pub cluster_mods: u32,
}

struct Silent;
impl Module for Silent {}

type EdgeKey = (String, String, String, String); // src path, dst path, start gate path, end gate path

fn edge_multiset<N, C>(t: &Topology<N, C>) -> BTreeMap<EdgeKey, usize> {
    let mut m = BTreeMap::new();
    for e in t.edges() {
        let key = (
            e.from.module().path().as_str().to_string(),
            e.to.module().path().as_str().to_string(),
            e.from.gate().path().as_str().to_string(),
            e.to.gate().path().as_str().to_string(),
        );
        *m.entry(key).or_insert(0) += 1;
    }
    m
}

fn node_multiset<N, C>(t: &Topology<N, C>) -> BTreeMap<String, usize> {
    let mut m = BTreeMap::new();
    for n in t.nodes() {
        *m.entry(n.module().path().as_str().to_string()).or_insert(0) += 1;
    }
    m
}

/// edges must also be attached to the right node: the gate of an edge end belongs to that node
fn edge_gate_owner_consistent<N, C>(t: &Topology<N, C>) -> Option<String> {
    for e in t.edges() {
        if e.from.gate().owner().path() != e.from.module().path() {
            return Some(format!("edge starts at node {} but its start gate is {}", e.from.module().path(), e.from.gate().path()));
        }
        if e.to.gate().owner().path() != e.to.module().path() {
            return Some(format!("edge ends at node {} but its end gate is {}", e.to.module().path(), e.to.gate().path()));
        }
    }
    None
}

struct Reference {
    nodes: Vec<String>,
    /// (src, dst, start gate path, end gate path, chain index, forward)
    edges: Vec<(usize, usize, String, String, usize, bool)>,
}

impl Reference {
    fn adj(&self, keep_node: &dyn Fn(usize) -> bool, keep_edge: &dyn Fn(usize, bool) -> bool) -> Vec<Vec<usize>> {
        let mut adj = vec![Vec::new(); self.nodes.len()];
        for (s, d, _, _, c, fwd) in &self.edges {
            if keep_node(*s) && keep_node(*d) && keep_edge(*c, *fwd) {
                adj[*s].push(*d);
            }
        }
        adj
    }

    fn bfs(adj: &[Vec<usize>], src: usize) -> Vec<Option<usize>> {
        let mut dist = vec![None; adj.len()];
        dist[src] = Some(0);
        let mut q = VecDeque::from([src]);
        while let Some(u) = q.pop_front() {
            for v in &adj[u] {
                if dist[*v].is_none() {
                    dist[*v] = Some(dist[u].unwrap() + 1);
                    q.push_back(*v);
                }
            }
        }
        dist
    }

    fn edge_set(&self, keep_node: &dyn Fn(usize) -> bool, keep_edge: &dyn Fn(usize, bool) -> bool) -> BTreeMap<EdgeKey, usize> {
        let mut m = BTreeMap::new();
        for (s, d, gs, gd, c, fwd) in &self.edges {
            if keep_node(*s) && keep_node(*d) && keep_edge(*c, *fwd) {
                *m.entry((self.nodes[*s].clone(), self.nodes[*d].clone(), gs.clone(), gd.clone())).or_insert(0) += 1;
            }
        }
        m
    }
}

pub type Finding = (&'static str, String);

#[derive(Default)]
pub struct Obs {
    pub views: u64,
    pub spanned_views: u64,
    pub subset_views: u64,
    pub dijkstra_sources: u64,
    pub dijkstra_targets: u64,
    pub edges_compared: u64,
    pub filtered_views: u64,
}

fn diff(a: &BTreeMap<EdgeKey, usize>, b: &BTreeMap<EdgeKey, usize>) -> String {
    let missing: Vec<_> = b.iter().filter(|(k, n)| a.get(*k) != Some(n)).take(3).collect();
    let extra: Vec<_> = a.iter().filter(|(k, n)| b.get(*k) != Some(n)).take(3).collect();
    format!("missing / miscounted {missing:?}; unexpected {extra:?}")
}

pub fn execute(case: &Case) -> (Vec<Finding>, Obs) {
    let mut obs = Obs::default();
    let res = vcommon::catch(|| {
        let mut f: Vec<Finding> = Vec::new();
        let mut obs = Obs::default();
        let mut sim = Sim::new(());
        for m in &case.modules {
            sim.node(m.as_str(), Silent);
        }
        let mut reference = Reference { nodes: case.modules.clone(), edges: Vec::new() };
        // modules whose endpoints are the members of one gate cluster (parallel links then start at gates of one name)
        let mut ports: Vec<Vec<GateRef>> = vec![Vec::new(); case.modules.len()];
        for (mi, m) in case.modules.iter().enumerate() {
            let ends = case.chains.iter().map(|c| usize::from(c.a == mi) + usize::from(c.b == mi)).sum::<usize>();
            if (case.cluster_mods >> (mi % 32)) & 1 == 1 && ends > 0 {
                ports[mi] = sim.gates(m.as_str(), "port", ends);
                ports[mi].reverse();
            }
        }
        // gate path -> (chain, is the `a` end)
        let mut role: BTreeMap<String, (usize, bool)> = BTreeMap::new();
        for (ci, ch) in case.chains.iter().enumerate() {
            let ga = match ports[ch.a].pop() {
                Some(g) => g,
                None => sim.gate(case.modules[ch.a].as_str(), &format!("c{ci}a")),
            };
            let gb = match ports[ch.b].pop() {
                Some(g) => g,
                None => sim.gate(case.modules[ch.b].as_str(), &format!("c{ci}b")),
            };
            role.insert(ga.path().as_str().to_string(), (ci, true));
            role.insert(gb.path().as_str().to_string(), (ci, false));
            let mut prev = ga.clone();
            for (ti, owner) in ch.transit.iter().enumerate() {
                let g = sim.gate(case.modules[*owner].as_str(), &format!("c{ci}t{ti}"));
                if ti % 2 == 0 {
                    prev.clone().connect(g.clone(), None);
                } else {
                    g.clone().connect(prev.clone(), None);
                }
                prev = g;
            }
            prev.connect(gb.clone(), None);
            let (pa, pb) = (ga.path().as_str().to_string(), gb.path().as_str().to_string());
            reference.edges.push((ch.a, ch.b, pa.clone(), pb.clone(), ci, true));
            reference.edges.push((ch.b, ch.a, pb, pa, ci, false));
        }
        for (i, m) in case.loose_gates.iter().enumerate() {
            let _ = sim.gate(case.modules[*m].as_str(), &format!("loose{i}"));
        }
        let all = |_: usize| true;
        let all_e = |_: usize, _: bool| true;
        let n = case.modules.len();

        // ---- global view
        let topo = sim.topology();
        obs.views += 1;
        let want_nodes: BTreeMap<String, usize> = case.modules.iter().map(|m| (m.clone(), 1)).collect();
        if node_multiset(&topo) != want_nodes {
            f.push(("global-nodes", format!("global view has nodes {:?}, declared {:?}", node_multiset(&topo), want_nodes)));
        }
        let want_edges = reference.edge_set(&all, &all_e);
        let got_edges = edge_multiset(&topo);
        obs.edges_compared += got_edges.values().sum::<usize>() as u64;
        if got_edges != want_edges {
            f.push(("global-edges", format!("global view edges differ from the gate graph: {}", diff(&got_edges, &want_edges))));
        }
        if let Some(e) = edge_gate_owner_consistent(&topo) {
            f.push(("edge-attachment", format!("global view: {e}")));
        }
        for (i, m) in case.modules.iter().enumerate() {
            let got: usize = topo.edges_for(m.as_str()).count();
            let want = reference.edges.iter().filter(|e| e.0 == i).count();
            if got != want {
                f.push(("edges-for", format!("edges_for({m}) yields {got} edges, the gate graph has {want}")));
            }
        }
        // the same through the node handles: every edge listed for a node starts at that node
        for node in topo.nodes() {
            let path = node.module().path();
            let Some(i) = case.modules.iter().position(|m| m.as_str() == path.as_str()) else { continue };
            let want = reference.edges.iter().filter(|e| e.0 == i).count();
            let mut got = 0usize;
            for e in topo.edges_for_node(node) {
                got += 1;
                if e.from.module().path().as_str() != path.as_str() {
                    f.push(("edges-for", format!("edges_for_node({path}) lists an edge that starts at {}", e.from.module().path())));
                    break;
                }
            }
            if got != want {
                f.push(("edges-for", format!("edges_for_node({path}) yields {got} edges, the gate graph has {want}")));
            }
        }
        let adj = reference.adj(&all, &all_e);
        let ref_connected = (0..n).all(|s| Reference::bfs(&adj, s).iter().all(Option::is_some));
        if topo.connected() != ref_connected {
            f.push(("connected", format!("connected() = {}, by definition (every node reaches every node) {}", topo.connected(), ref_connected)));
        }
        if !topo.bidirectional() {
            f.push(("bidirectional", "bidirectional() = false although every chain yields both directions".into()));
        }

        // ---- dijkstra from every source on the global view
        for src in 0..n {
            let dist = Reference::bfs(&adj, src);
            let map = topo.dijkstra(case.modules[src].as_str());
            obs.dijkstra_sources += 1;
            let want_keys: BTreeSet<String> = (0..n).filter(|v| *v != src && dist[*v].is_some()).map(|v| case.modules[v].clone()).collect();
            let got_keys: BTreeSet<String> = map.keys().map(|k| k.as_str().to_string()).collect();
            if got_keys != want_keys {
                f.push(("dijkstra-keys", format!("dijkstra({}) has entries for {got_keys:?}, reachable are {want_keys:?}", case.modules[src])));
                continue;
            }
            for (target, edge) in &map {
                obs.dijkstra_targets += 1;
                let v = case.modules.iter().position(|m| m == target.as_str()).unwrap();
                let from = edge.from.module().path();
                if from.as_str() != case.modules[src] {
                    f.push(("dijkstra-first-edge", format!("dijkstra({}) -> {}: the returned edge starts at {from}", case.modules[src], target)));
                    continue;
                }
                let hop = case.modules.iter().position(|m| m == edge.to.module().path().as_str()).unwrap();
                let d_hop = Reference::bfs(&adj, hop)[v];
                if d_hop.map(|d| d + 1) != dist[v] {
                    f.push((
                        "dijkstra-not-shortest",
                        format!(
                            "dijkstra({}) -> {}: first edge leads to {} which is {:?} hops from the target, the shortest path has {:?} hops",
                            case.modules[src], target, case.modules[hop], d_hop, dist[v]
                        ),
                    ));
                }
            }
        }

        // ---- node filtered view
        let keep = |i: usize| (case.node_filter >> i) & 1 == 1;
        {
            let mut t = sim.topology();
            t.filter_nodes(|node| {
                let p = node.module().path();
                let i = case.modules.iter().position(|m| m == p.as_str()).unwrap();
                keep(i)
            });
            obs.filtered_views += 1;
            let want_nodes: BTreeMap<String, usize> = case.modules.iter().enumerate().filter(|(i, _)| keep(*i)).map(|(_, m)| (m.clone(), 1)).collect();
            if node_multiset(&t) != want_nodes {
                f.push(("filter-nodes", format!("filter_nodes kept {:?}, selected {:?}", node_multiset(&t), want_nodes)));
            } else {
                let want = reference.edge_set(&keep, &all_e);
                let got = edge_multiset(&t);
                if got != want {
                    f.push(("filter-nodes-edges", format!("edges after filter_nodes differ: {}", diff(&got, &want))));
                }
                if let Some(e) = edge_gate_owner_consistent(&t) {
                    f.push(("edge-attachment", format!("node filtered view: {e}")));
                }
                let kept: Vec<usize> = (0..n).filter(|i| keep(*i)).collect();
                let adj_f = reference.adj(&keep, &all_e);
                let ref_conn = kept.iter().all(|s| {
                    let d = Reference::bfs(&adj_f, *s);
                    kept.iter().all(|v| d[*v].is_some())
                });
                if t.connected() != ref_conn {
                    f.push(("connected", format!("node filtered view: connected() = {}, by definition {}", t.connected(), ref_conn)));
                }
                if !t.bidirectional() {
                    f.push(("bidirectional", "node filtered view: bidirectional() = false".into()));
                }
            }
        }

        // ---- edge filtered view (makes `bidirectional` non-trivial)
        let keep_e = |c: usize, fwd: bool| !(fwd && (case.edge_filter >> (c % 32)) & 1 == 1);
        {
            let mut t = sim.topology();
            t.filter_edges(|e| {
                // forward direction of chain ci starts at its `a` end
                let (ci, is_a) = role.get(e.from.gate().path().as_str()).copied().unwrap_or((usize::MAX, false));
                keep_e(ci, is_a)
            });
            obs.filtered_views += 1;
            let want = reference.edge_set(&all, &keep_e);
            let got = edge_multiset(&t);
            if got != want {
                f.push(("filter-edges", format!("edges after filter_edges differ: {}", diff(&got, &want))));
            } else {
                let adj_f = reference.adj(&all, &keep_e);
                let ref_bidi = (0..n).all(|s| adj_f[s].iter().all(|d| adj_f[*d].contains(&s)));
                if t.bidirectional() != ref_bidi {
                    f.push(("bidirectional", format!("edge filtered view: bidirectional() = {}, by definition (every edge has a reverse edge) {}", t.bidirectional(), ref_bidi)));
                }
                let ref_conn = (0..n).all(|s| Reference::bfs(&adj_f, s).iter().all(Option::is_some));
                if t.connected() != ref_conn {
                    f.push(("connected", format!("edge filtered view: connected() = {}, by definition {}", t.connected(), ref_conn)));
                }
            }
        }

        // ---- views over a subset of the modules (from_modules): exactly the listed modules, exactly the edges whose
        // two ends are both listed (a chain that ends outside the list is no edge of the view)
        for k in 0..3usize {
            if n < 2 {
                break;
            }
            let keep = |i: usize| (i + k) % 3 != 0;
            let mut listed: Vec<usize> = (0..n).filter(|i| keep(*i)).collect();
            if k == 2 {
                listed.reverse();
            }
            let refs: Vec<ModuleRef> = listed.iter().map(|i| sim.get(&case.modules[*i].as_str().into()).expect("module exists")).collect();
            let t = Topology::from_modules(&refs);
            obs.subset_views += 1;
            let want_nodes: BTreeMap<String, usize> = listed.iter().map(|i| (case.modules[*i].clone(), 1)).collect();
            if node_multiset(&t) != want_nodes {
                f.push(("subset-nodes", format!("from_modules({:?}) has nodes {:?}", want_nodes.keys().collect::<Vec<_>>(), node_multiset(&t))));
                continue;
            }
            let want = reference.edge_set(&keep, &all_e);
            let got = edge_multiset(&t);
            obs.edges_compared += got.values().sum::<usize>() as u64;
            if got != want {
                f.push(("subset-edges", format!("from_modules({:?}): edges differ from the gate graph restricted to these modules: {}", want_nodes.keys().collect::<Vec<_>>(), diff(&got, &want))));
            }
            if let Some(e) = edge_gate_owner_consistent(&t) {
                f.push(("edge-attachment", format!("from_modules view: {e}")));
            }
        }

        // ---- spanned views from every root
        for root in 0..n {
            let module = sim.get(&case.modules[root].as_str().into()).expect("module exists");
            let t = Topology::spanned(module);
            obs.spanned_views += 1;
            let dist = Reference::bfs(&adj, root);
            let reach = |i: usize| dist[i].is_some();
            let want_nodes: BTreeMap<String, usize> = case.modules.iter().enumerate().filter(|(i, _)| reach(*i)).map(|(_, m)| (m.clone(), 1)).collect();
            if node_multiset(&t) != want_nodes {
                f.push(("spanned-nodes", format!("spanned({}) has nodes {:?}, reachable are {:?}", case.modules[root], node_multiset(&t), want_nodes)));
                continue;
            }
            let want = reference.edge_set(&reach, &all_e);
            let got = edge_multiset(&t);
            obs.edges_compared += got.values().sum::<usize>() as u64;
            if got != want {
                f.push(("spanned-edges", format!("spanned({}) edges differ from the gate graph: {}", case.modules[root], diff(&got, &want))));
            }
            if let Some(e) = edge_gate_owner_consistent(&t) {
                f.push(("edge-attachment", format!("spanned({}): {e}", case.modules[root])));
            }
            if f.len() > 6 {
                break;
            }
        }
        drop(sim);
        (f, obs)
    });
    match res {
        Ok((f, o)) => (f, o),
        Err(p) => {
            obs.views = 0;
            (vec![("panicked", format!("building / querying the topology panicked: {p}"))], obs)
        }
    }
}

pub fn gen_case(rng: &mut Rng) -> Case {
    let n = 1 + rng.usize_below(12);
    let mut modules: Vec<String> = Vec::new();
    for i in 0..n {
        // some modules are children of earlier ones (the topology is about gates, not about the tree)
        if i > 0 && rng.chance(1, 4) {
            let parent = modules[rng.usize_below(i)].clone();
            modules.push(format!("{parent}.k{i}"));
        } else {
            modules.push(format!("m{i}"));
        }
    }
    let shape = rng.below(7);
    let mut chains: Vec<Chain> = Vec::new();
    let mut add = |a: usize, b: usize, rng: &mut Rng, chains: &mut Vec<Chain>| {
        let t = match rng.below(10) {
            0..=5 => 0,
            6..=7 => 1 + rng.usize_below(3),
            8 => 4 + rng.usize_below(11),
            _ => 15, // 16 hops: the documented limit of the global view
        };
        let transit = (0..t).map(|_| rng.usize_below(n)).collect();
        chains.push(Chain { a, b, transit });
    };
    match shape {
        0 => {
            for i in 1..n {
                let p = rng.usize_below(i);
                add(p, i, rng, &mut chains);
            }
        }
        1 => {
            for i in 1..n {
                add(0, i, rng, &mut chains);
            }
        }
        2 => {
            for i in 0..n {
                if n > 1 {
                    add(i, (i + 1) % n, rng, &mut chains);
                }
            }
        }
        3 => {
            for i in 0..n {
                for j in (i + 1)..n {
                    if n <= 6 {
                        add(i, j, rng, &mut chains);
                    }
                }
            }
        }
        _ => {
            let m = rng.usize_below(2 * n + 1);
            for _ in 0..m {
                let a = rng.usize_below(n);
                let b = rng.usize_below(n); // a == b: self loop through two gates of one module
                add(a, b, rng, &mut chains);
            }
        }
    }
    // multi edges
    if !chains.is_empty() && rng.chance(1, 3) {
        let c = chains[rng.usize_below(chains.len())].clone();
        chains.push(Chain { a: c.a, b: c.b, transit: Vec::new() });
    }
    chains.truncate(28);
    let loose_gates = (0..rng.usize_below(3)).map(|_| rng.usize_below(n)).collect();
    Case { modules, chains, loose_gates, node_filter: rng.next_u64() as u32 | u32::from(rng.chance(1, 8)) * u32::MAX, edge_filter: if rng.chance(1, 3) { 0 } else { rng.next_u64() as u32 }, cluster_mods: if rng.chance(2, 5) { rng.next_u64() as u32 } else { 0 } }
}

fn case_hash(c: &Case) -> u64 {
    let mut h = Hasher64::new();
    h.str(&serde_json::to_string(c).unwrap());
    h.finish()
}

pub fn case_json(case: &Case) -> Value {
    json!({"driver": "desmon", "sub": "c19", "case": serde_json::to_value(case).unwrap()})
}

pub fn cmd(args: &Args) -> Report {
    let mut rep = Report::new("C19");
    let mut rng = Rng::new(args.stream_seed("c19"));
    let cases = args.cases(400_000, 6_000_000);
    for i in 0..cases {
        let case = gen_case(&mut rng);
        vcommon::mark_case(&format!("c19:{}:{}:{}", args.seed, args.shard, i));
        let (findings, obs) = execute(&case);
        rep.eval();
        rep.count("global_views_checked", obs.views);
        rep.count("spanned_views_checked", obs.spanned_views);
        rep.count("subset_views_checked", obs.subset_views);
        rep.count("filtered_views_checked", obs.filtered_views);
        rep.count("dijkstra_sources", obs.dijkstra_sources);
        rep.count("dijkstra_targets_checked", obs.dijkstra_targets);
        rep.count("edges_compared", obs.edges_compared);
        if case.chains.iter().any(|c| c.a == c.b) {
            rep.count("graphs_with_self_loops", 1);
        }
        if case.chains.iter().any(|c| c.transit.len() == 15) {
            rep.count("graphs_with_16_hop_chains", 1);
        }
        rep.count("chains_total", case.chains.len() as u64);
        // parallel links that start at members of one gate cluster and end at the same module
        let clustered = |m: usize| (case.cluster_mods >> (m % 32)) & 1 == 1;
        let parallel = case.chains.iter().enumerate().any(|(i, c)| {
            case.chains.iter().skip(i + 1).any(|d| {
                (clustered(c.a) && ((d.a == c.a && d.b == c.b) || (d.b == c.a && d.a == c.b))) || (clustered(c.b) && ((d.b == c.b && d.a == c.a) || (d.a == c.b && d.b == c.a)))
            })
        });
        if parallel {
            rep.count("graphs_with_parallel_links_on_a_gate_cluster", 1);
        }
        if findings.is_empty() && case.modules.len() >= 3 && case.chains.len() >= 2 {
            rep.nontrivial(case_hash(&case));
            if rep.wants_sample() && case.modules.len() <= 4 && case.chains.len() <= 4 {
                rep.sample(serde_json::to_value(&case).unwrap());
            }
        }
        let mut stop = false;
        for (kind, detail) in findings.into_iter().take(2) {
            if !rep.violation(&format!("C19/{kind}"), &detail, case_json(&case)) {
                stop = true;
            }
        }
        if stop {
            break;
        }
    }
    rep
}

pub fn replay(v: &Value) -> i32 {
    let case: Case = serde_json::from_value(v.get("case").expect("case").clone()).expect("case");
    println!("case: {}", serde_json::to_string_pretty(&case).unwrap());
    let (f, _) = execute(&case);
    if f.is_empty() {
        println!("no violation");
        0
    } else {
        for (k, d) in f {
            println!("VIOLATION reproduced: C19/{k}: {d}");
        }
        1
    }
}
