//! C12 — start-up and tear-down callbacks run once, stage by stage, in module-tree order.
//!
//! A module tree is declared (names sharing prefixes, per-module stage counts) and inserted into
//! the builder in a generated valid order (every valid order for small trees). All callbacks log
//! into one sequence; the expected start sequence is computed from the declaration alone.

use des::net::blocks::ModuleBlock;
use des::prelude::*;
use serde::{Deserialize, Serialize};
use serde_json::{json, Value};
use std::cell::RefCell;
use vcommon::{Args, Hasher64, Report, Rng};

#[derive(Debug, Clone, Serialize, Deserialize, PartialEq)]
pub struct NodeDecl {
    pub name: String,
    /// index of the parent in `nodes` (None = top level); parents have smaller indices
    pub parent: Option<usize>,
    pub stages: usize,
    /// the node and its direct children (that follow immediately in the insertion order) are created
    /// through a ModuleBlock with a scoped builder
    pub via_block: bool,
    /// time of a self message scheduled in stage 0 (handled before tear-down)
    pub ping_ns: Option<u64>,
    /// at_sim_end of this module reports an error (all other modules are torn down all the same)
    #[serde(default)]
    pub end_err: bool,
    /// the module shuts itself down (for good) when it handles its ping; it is still torn down exactly once
    #[serde(default)]
    pub shutdown_on_ping: bool,
    /// the module shuts itself down in its first start-up stage; its remaining declared stages are still delivered
    #[serde(default)]
    pub shutdown_in_stage0: bool,
    /// the module panics when it handles its ping (default stereotype: the panic is not caught, run() returns an
    /// error); every module - also this one - is still torn down exactly once after the last event
    #[serde(default)]
    pub panic_on_ping: bool,
}

#[derive(Debug, Clone, Serialize, Deserialize, PartialEq)]
pub struct Case {
    /// declaration order = creation order of siblings
    pub nodes: Vec<NodeDecl>,
    /// insertion order into the builder (a permutation of the indices, parents first). The relative
    /// order of siblings in `order` defines their creation order.
    pub order: Vec<usize>,
    /// the run is stopped by an event-count limit with self messages still pending: tear-down happens all the same
    #[serde(default)]
    pub limit: Option<usize>,
}

impl Case {
    pub fn path(&self, i: usize) -> String {
        match self.nodes[i].parent {
            None => self.nodes[i].name.clone(),
            Some(p) => format!("{}.{}", self.path(p), self.nodes[i].name),
        }
    }
}

#[derive(Debug, Clone, PartialEq, Eq, Serialize, Deserialize)]
pub enum Ev {
    Start(usize, usize),
    Msg(usize),
    End(usize),
    /// a lookup inside a callback disagreed with the declared tree
    Lookup(usize, String),
}

thread_local! {
    static LOG: RefCell<Vec<Ev>> = const { RefCell::new(Vec::new()) };
}

struct Node {
    idx: usize,
    stages: usize,
    path: String,
    parent_path: Option<String>,
    children: Vec<(String, String)>,
    ping_ns: Option<u64>,
    end_err: bool,
    panic_on_ping: bool,
    shutdown_on_ping: bool,
    shutdown_in_stage0: bool,
    /// paths of modules that shut themselves down during the run (a lookup may then report them as inactive)
    may_be_down: Vec<String>,
}

impl Node {
    fn lookups(&self) {
        let cur = current();
        let mut bad = |what: String| LOG.with(|l| l.borrow_mut().push(Ev::Lookup(self.idx, what)));
        if cur.path().as_str() != self.path {
            bad(format!("current().path() = {} inside {}", cur.path(), self.path));
        }
        if cur.name() != self.path.rsplit('.').next().unwrap_or("") {
            bad(format!("current().name() = {} inside {}", cur.name(), self.path));
        }
        let inactive = |e: &dyn std::fmt::Debug, path: &str| format!("{e:?}").contains("CurrentlyInactive") && self.may_be_down.iter().any(|d| d == path);
        match (&self.parent_path, cur.parent().as_ref()) {
            (Some(p), Ok(m)) if m.path().as_str() == p => {}
            (None, Err(_)) => {}
            (Some(p), Err(e)) if inactive(e, p.as_str()) => {}
            (want, got) => bad(format!("parent() of {} = {:?}, declared {want:?}", self.path, got.map(|m| m.path().to_string()).map_err(|e| format!("{e:?}")))),
        }
        for (name, path) in &self.children {
            match cur.child(name) {
                Ok(m) if m.path().as_str() == path => {}
                Err(e) if inactive(&e, path) => {}
                other => bad(format!("child({name}) of {} = {:?}, declared {path}", self.path, other.map(|m| m.path().to_string()).map_err(|e| format!("{e:?}")))),
            }
        }
        if cur.child("no-such-child").is_ok() {
            bad(format!("child(no-such-child) of {} exists", self.path));
        }
    }
}

impl Module for Node {
    fn num_sim_start_stages(&self) -> usize {
        self.stages
    }

    fn at_sim_start(&mut self, stage: usize) {
        LOG.with(|l| l.borrow_mut().push(Ev::Start(self.idx, stage)));
        self.lookups();
        if stage == 0 {
            if let Some(t) = self.ping_ns {
                schedule_at(Message::default(), SimTime::from_duration(Duration::from_nanos(t)));
            }
            if self.shutdown_in_stage0 {
                current().shutdown();
            }
        }
    }

    fn handle_message(&mut self, _: Message) {
        LOG.with(|l| l.borrow_mut().push(Ev::Msg(self.idx)));
        self.lookups();
        if self.panic_on_ping {
            panic!("injected: module {} fails while handling its ping", self.idx);
        }
        if self.shutdown_on_ping {
            current().shutdown();
        }
    }

    fn at_sim_end(&mut self) -> Result<(), RuntimeError> {
        LOG.with(|l| l.borrow_mut().push(Ev::End(self.idx)));
        if self.end_err {
            return Err(RuntimeError::from(std::io::Error::other("module reports a failure at the end")));
        }
        Ok(())
    }
}

/// a block that creates its root and some direct children through the scoped builder
struct Block {
    root: Node,
    children: Vec<(String, Node)>,
}

impl ModuleBlock for Block {
    type Ret = ();
    fn build<A>(self, mut sim: SimBuilderScoped<'_, A>) {
        sim.root(self.root);
        for (name, node) in self.children {
            sim.node(name.as_str(), node);
        }
    }
}

fn make_node(case: &Case, i: usize) -> Node {
    let d = &case.nodes[i];
    Node {
        idx: i,
        stages: d.stages,
        path: case.path(i),
        parent_path: d.parent.map(|p| case.path(p)),
        children: (0..case.nodes.len()).filter(|c| case.nodes[*c].parent == Some(i)).map(|c| (case.nodes[c].name.clone(), case.path(c))).collect(),
        ping_ns: d.ping_ns,
        end_err: d.end_err,
        panic_on_ping: d.panic_on_ping,
        shutdown_on_ping: d.shutdown_on_ping,
        shutdown_in_stage0: d.shutdown_in_stage0,
        may_be_down: (0..case.nodes.len())
            .filter(|c| ((case.nodes[*c].shutdown_on_ping || case.nodes[*c].panic_on_ping) && case.nodes[*c].ping_ns.is_some()) || case.nodes[*c].shutdown_in_stage0)
            .map(|c| case.path(c))
            .collect(),
    }
}

/// expected start sequence from the declaration: stage-major, depth-first pre-order, siblings in
/// creation order (= their relative order in `order`)
pub fn expected_starts(case: &Case) -> Vec<(usize, usize)> {
    let pos: Vec<usize> = {
        let mut p = vec![0; case.nodes.len()];
        for (k, i) in case.order.iter().enumerate() {
            p[*i] = k;
        }
        p
    };
    fn dfs(case: &Case, pos: &[usize], parent: Option<usize>, out: &mut Vec<usize>) {
        let mut kids: Vec<usize> = (0..case.nodes.len()).filter(|i| case.nodes[*i].parent == parent).collect();
        kids.sort_by_key(|i| pos[*i]);
        for k in kids {
            out.push(k);
            dfs(case, pos, Some(k), out);
        }
    }
    let mut pre = Vec::new();
    dfs(case, &pos, None, &mut pre);
    let max_stage = case.nodes.iter().map(|n| n.stages).max().unwrap_or(0).max(1);
    let mut seq = Vec::new();
    for stage in 0..max_stage {
        for i in &pre {
            if stage < case.nodes[*i].stages {
                seq.push((*i, stage));
            }
        }
    }
    seq
}

pub type Finding = (&'static str, String);

pub fn execute(case: &Case) -> (Vec<Finding>, usize) {
    LOG.with(|l| l.borrow_mut().clear());
    let res = vcommon::catch(|| {
        let mut sim = Sim::new(());
        let mut k = 0;
        while k < case.order.len() {
            let i = case.order[k];
            if case.nodes[i].via_block {
                // the block takes the direct children that follow immediately in the insertion order
                let mut children = Vec::new();
                let mut j = k + 1;
                while j < case.order.len() && case.nodes[case.order[j]].parent == Some(i) && !case.nodes[case.order[j]].via_block {
                    let c = case.order[j];
                    children.push((case.nodes[c].name.clone(), make_node(case, c)));
                    j += 1;
                }
                sim.node(case.path(i).as_str(), Block { root: make_node(case, i), children });
                k = j;
            } else {
                sim.node(case.path(i).as_str(), make_node(case, i));
                k += 1;
            }
        }
        let declared: Vec<String> = (0..case.nodes.len()).map(|i| case.path(i)).collect();
        let mut built: Vec<String> = sim.nodes().map(|p| p.as_str().to_string()).collect();
        if std::env::var("C12_DEBUG").is_ok() {
            eprintln!("module tree order: {built:?}");
        }
        built.sort();
        let mut want = declared.clone();
        want.sort();
        let nodes_ok = built == want;
        let mut b = Builder::seeded(1).quiet();
        if let Some(n) = case.limit {
            b = b.max_itr(n);
        }
        let rt = b.build(sim.freeze());
        (rt.run().is_ok(), nodes_ok)
    });
    let log = LOG.with(|l| std::mem::take(&mut *l.borrow_mut()));
    let mut f: Vec<Finding> = Vec::new();
    match res {
        Err(p) => {
            f.push(("panicked", format!("building / running the tree panicked: {p}")));
            return (f, 0);
        }
        Ok((ok, nodes_ok)) => {
            if !nodes_ok {
                f.push(("nodes", "Sim::nodes() differs from the declared set of paths".into()));
            }
            let panics = case.nodes.iter().filter(|d| d.panic_on_ping && d.ping_ns.is_some() && d.stages > 0 && !d.shutdown_in_stage0).count();
            let err_expected = case.nodes.iter().any(|d| d.end_err) || panics > 0;
            // (under a limit the panicking message may not have been reached)
            let undecided = case.limit.is_some() && panics > 0 && !case.nodes.iter().any(|d| d.end_err);
            if ok == err_expected && !undecided {
                f.push(("run-error", format!("run() returned {}, {} module(s) report an error from at_sim_end, {panics} panic while handling a message", if ok { "Ok" } else { "an error" }, case.nodes.iter().filter(|d| d.end_err).count())));
            }
        }
    }
    for e in &log {
        if let Ev::Lookup(i, what) = e {
            f.push(("lookup", format!("in {}: {what}", case.path(*i))));
            break;
        }
    }
    let starts: Vec<(usize, usize)> = log.iter().filter_map(|e| if let Ev::Start(i, s) = e { Some((*i, *s)) } else { None }).collect();
    let want = expected_starts(case);
    if std::env::var("C12_DEBUG").is_ok() {
        eprintln!("observed starts: {:?}", starts.iter().map(|(i, s)| format!("{}@{}", case.path(*i), s)).collect::<Vec<_>>());
    }
    if starts != want {
        let p = starts.iter().zip(&want).position(|(a, b)| a != b).unwrap_or(starts.len().min(want.len()));
        let show = |x: Option<&(usize, usize)>| x.map(|(i, s)| format!("{}@stage{}", case.path(*i), s));
        let kind = if starts.len() != want.len() { "start-count" } else { "start-order" };
        f.push((
            kind,
            format!(
                "at_sim_start sequence differs at position {p}: observed {:?}, expected {:?} (observed {} calls, expected {})",
                show(starts.get(p)),
                show(want.get(p)),
                starts.len(),
                want.len()
            ),
        ));
    }
    // tear-down: every module exactly once, after the last handled event
    let last_other = log.iter().rposition(|e| matches!(e, Ev::Start(..) | Ev::Msg(_)));
    let first_end = log.iter().position(|e| matches!(e, Ev::End(_)));
    if let (Some(a), Some(b)) = (last_other, first_end) {
        if b < a {
            f.push(("end-before-last-event", format!("an at_sim_end call (log position {b}) precedes an event callback (log position {a})")));
        }
    }
    for i in 0..case.nodes.len() {
        let n = log.iter().filter(|e| **e == Ev::End(i)).count();
        if n != 1 {
            f.push(("end-count", format!("at_sim_end of {} was called {n} times", case.path(i))));
            break;
        }
    }
    let msgs = log.iter().filter(|e| matches!(e, Ev::Msg(_))).count();
    // (a module that shut itself down during start-up does not handle its ping)
    let want_msgs = case.nodes.iter().filter(|n| n.ping_ns.is_some() && n.stages > 0 && !n.shutdown_in_stage0).count();
    if (case.limit.is_none() && msgs != want_msgs) || msgs > want_msgs || case.limit.is_some_and(|n| msgs > n) {
        f.push(("messages", format!("{msgs} self messages handled, {want_msgs} scheduled")));
    }
    (f, starts.len())
}

/// builder rejections: duplicate path, missing parent (fresh builder per attempt)
pub fn builder_rejections(case: &Case, rng: &mut Rng) -> Vec<Finding> {
    let mut f = Vec::new();
    let n = case.nodes.len();
    // duplicate
    let dup = rng.usize_below(n);
    let r = vcommon::catch(|| {
        let mut sim = Sim::new(());
        for i in &case.order {
            sim.node(case.path(*i).as_str(), make_node(case, *i));
        }
        let second = vcommon::catch(std::panic::AssertUnwindSafe(|| sim.node(case.path(dup).as_str(), make_node(case, dup))));
        drop(sim);
        second.is_err()
    });
    match r {
        Ok(true) => {}
        Ok(false) => f.push(("duplicate-accepted", format!("a second node with path {} was accepted", case.path(dup)))),
        Err(p) => f.push(("panicked", format!("building the tree panicked: {p}"))),
    }
    // missing parent: insert a node whose parent is left out
    if let Some(child) = (0..n).find(|i| case.nodes[*i].parent.is_some()) {
        let skip = case.nodes[child].parent.unwrap();
        let r = vcommon::catch(|| {
            let mut sim = Sim::new(());
            let mut rejected = false;
            for i in &case.order {
                if *i == skip {
                    continue;
                }
                // everything below the skipped node lacks an ancestor
                let mut anc = case.nodes[*i].parent;
                let mut below = false;
                while let Some(a) = anc {
                    if a == skip {
                        below = true;
                    }
                    anc = case.nodes[a].parent;
                }
                if below {
                    if *i == child {
                        let path = case.path(*i);
                        let node = make_node(case, *i);
                        rejected = vcommon::catch(std::panic::AssertUnwindSafe(|| sim.node(path.as_str(), node))).is_err();
                    }
                    continue;
                }
                sim.node(case.path(*i).as_str(), make_node(case, *i));
            }
            drop(sim);
            rejected
        });
        match r {
            Ok(true) => {}
            Ok(false) => f.push(("missing-parent-accepted", format!("node {} was accepted although its parent {} does not exist", case.path(child), case.path(skip)))),
            Err(p) => f.push(("panicked", format!("building the tree panicked: {p}"))),
        }
    }
    f
}

/// ObjectPath against a string-splitting reference
pub fn object_path_checks(case: &Case) -> Vec<Finding> {
    let mut f = Vec::new();
    for i in 0..case.nodes.len() {
        let s = case.path(i);
        let segs: Vec<&str> = s.split('.').collect();
        let p = ObjectPath::from(s.as_str());
        let mut bad = |what: String| f.push(("object-path", format!("ObjectPath({s}): {what}")));
        if p.as_str() != s {
            bad(format!("as_str() = {}", p.as_str()));
        }
        if p.len() != segs.len() {
            bad(format!("len() = {}, {} segments", p.len(), segs.len()));
        }
        if p.name() != *segs.last().unwrap() {
            bad(format!("name() = {}", p.name()));
        }
        let parent_str = segs[..segs.len() - 1].join(".");
        if p.as_parent_str() != parent_str {
            bad(format!("as_parent_str() = {}", p.as_parent_str()));
        }
        match p.parent() {
            Some(pp) if pp.as_str() == parent_str && pp.len() == segs.len() - 1 => {
                if pp.is_root() != (segs.len() == 1) {
                    bad("parent().is_root() is inconsistent".into());
                }
            }
            other => bad(format!("parent() = {:?}", other.map(|x| x.as_str().to_string()))),
        }
        if (p.nonzero_parent().is_some()) != (segs.len() > 1) {
            bad("nonzero_parent() presence is wrong".into());
        }
        // appended
        let mut built = ObjectPath::default();
        for seg in &segs {
            built = built.appended(seg);
        }
        if built != p || built.as_str() != s || built.name() != p.name() {
            bad(format!("appending the segments yields {built:?}"));
        }
        if p.is_root() {
            bad("is_root() of a non-empty path".into());
        }
    }
    f
}

const NAMES: &[&str] = &["a", "ab", "a1", "b", "a[0]", "abc", "node", "node1", "node10", "x_y", "é", "aé"];

pub fn gen_tree(rng: &mut Rng, n: usize) -> Vec<NodeDecl> {
    let mut nodes: Vec<NodeDecl> = Vec::new();
    for i in 0..n {
        // depth <= 4, fan-out <= 4
        let parent = if i == 0 || rng.chance(1, 4) {
            None
        } else {
            let mut cand: Vec<usize> = (0..i)
                .filter(|p| {
                    let mut d = 1;
                    let mut a = nodes[*p].parent;
                    while let Some(x) = a {
                        d += 1;
                        a = nodes[x].parent;
                    }
                    d < 4 && nodes.iter().filter(|c| c.parent == Some(*p)).count() < 4
                })
                .collect();
            if cand.is_empty() {
                None
            } else {
                Some(cand.swap_remove(rng.usize_below(cand.len())))
            }
        };
        // unique name among the siblings
        let used: Vec<&str> = nodes.iter().filter(|c| c.parent == parent).map(|c| c.name.as_str()).collect();
        let free: Vec<&&str> = NAMES.iter().filter(|nm| !used.contains(*nm)).collect();
        let name = if free.is_empty() { format!("n{i}") } else { free[rng.usize_below(free.len())].to_string() };
        nodes.push(NodeDecl {
            name,
            parent,
            stages: match rng.below(6) {
                0 => 0,
                1..=3 => 1,
                4 => 2,
                _ => 3 + rng.usize_below(2),
            },
            via_block: rng.chance(1, 5),
            ping_ns: if rng.chance(1, 2) { Some(1 + rng.below(1_000_000)) } else { None },
            end_err: rng.chance(1, 12),
            shutdown_on_ping: rng.chance(1, 10),
            shutdown_in_stage0: rng.chance(1, 12),
            panic_on_ping: rng.chance(1, 14),
        });
    }
    nodes
}

fn random_order(rng: &mut Rng, nodes: &[NodeDecl]) -> Vec<usize> {
    let n = nodes.len();
    let mut placed = vec![false; n];
    let mut order = Vec::new();
    while order.len() < n {
        let ready: Vec<usize> = (0..n).filter(|i| !placed[*i] && nodes[*i].parent.map_or(true, |p| placed[p])).collect();
        let pick = ready[rng.usize_below(ready.len())];
        placed[pick] = true;
        order.push(pick);
    }
    order
}

fn all_orders(nodes: &[NodeDecl], limit: usize) -> Vec<Vec<usize>> {
    fn rec(nodes: &[NodeDecl], placed: &mut Vec<bool>, cur: &mut Vec<usize>, out: &mut Vec<Vec<usize>>, limit: usize) {
        if out.len() >= limit {
            return;
        }
        if cur.len() == nodes.len() {
            out.push(cur.clone());
            return;
        }
        for i in 0..nodes.len() {
            if !placed[i] && nodes[i].parent.map_or(true, |p| placed[p]) {
                placed[i] = true;
                cur.push(i);
                rec(nodes, placed, cur, out, limit);
                cur.pop();
                placed[i] = false;
            }
        }
    }
    let mut out = Vec::new();
    rec(nodes, &mut vec![false; nodes.len()], &mut Vec::new(), &mut out, limit);
    out
}

fn case_hash(c: &Case) -> u64 {
    let mut h = Hasher64::new();
    h.str(&serde_json::to_string(c).unwrap());
    h.finish()
}

pub fn case_json(case: &Case) -> Value {
    json!({"driver": "desmon", "sub": "c12", "case": serde_json::to_value(case).unwrap()})
}

pub fn cmd(args: &Args) -> Report {
    let mut rep = Report::new("C12");
    let mut rng = Rng::new(args.stream_seed("c12"));
    let cases = args.cases(40_000, 600_000);
    let mut stop = false;
    for i in 0..cases {
        let small = i % 3 == 0;
        let n = if small { 2 + rng.usize_below(5) } else { 2 + rng.usize_below(24) };
        let nodes = gen_tree(&mut rng, n);
        let orders: Vec<Vec<usize>> = if small {
            rep.count("trees_with_all_insertion_orders", 1);
            all_orders(&nodes, 5040)
        } else {
            (0..3).map(|_| random_order(&mut rng, &nodes)).collect()
        };
        for order in orders {
            let pings = nodes.iter().filter(|n| n.ping_ns.is_some()).count();
            let limit = if rng.chance(1, 5) { Some(rng.usize_below(pings + 1)) } else { None };
            let case = Case { nodes: nodes.clone(), order, limit };
            if limit.is_some_and(|n| n < pings) {
                rep.count("runs_stopped_by_an_event_limit_with_messages_pending", 1);
            }
            vcommon::mark_case(&format!("c12:{}:{}:{}", args.seed, args.shard, i));
            let (mut findings, starts) = execute(&case);
            rep.eval();
            rep.count("start_calls_checked", starts as u64);
            rep.count("insertion_orders_executed", 1);
            if case.order.windows(2).any(|w| w[0] > w[1]) {
                rep.count("insertion_orders_not_in_declaration_order", 1);
            }
            if rng.chance(1, 8) {
                findings.extend(builder_rejections(&case, &mut rng));
                findings.extend(object_path_checks(&case));
                rep.count("builder_rejection_probes", 1);
            }
            let shares_prefix = case.nodes.iter().any(|a| case.nodes.iter().any(|b| a.parent == b.parent && a.name != b.name && b.name.starts_with(&a.name)));
            if shares_prefix {
                rep.count("trees_with_prefix_sharing_siblings", 1);
            }
            if case.nodes.iter().any(|d| d.panic_on_ping && d.ping_ns.is_some() && d.stages > 0 && !d.shutdown_in_stage0) {
                rep.count("trees_with_a_module_that_panics_during_the_run", 1);
            }
            if findings.is_empty() && case.nodes.len() >= 3 && case.nodes.iter().any(|x| x.parent.is_some()) {
                rep.nontrivial(case_hash(&case));
                if rep.wants_sample() && case.nodes.len() <= 5 && case.order.windows(2).any(|w| w[0] > w[1]) {
                    rep.sample(serde_json::to_value(&case).unwrap());
                }
            }
            for (kind, detail) in findings.into_iter().take(2) {
                if !rep.violation(&format!("C12/{kind}"), &detail, case_json(&case)) {
                    stop = true;
                }
            }
            if stop {
                break;
            }
        }
        if stop {
            break;
        }
    }
    rep
}

pub fn replay(v: &Value) -> i32 {
    let case: Case = serde_json::from_value(v.get("case").expect("case").clone()).expect("case");
    println!("case: {}", serde_json::to_string_pretty(&case).unwrap());
    let (mut f, _) = execute(&case);
    f.extend(object_path_checks(&case));
    let want: Vec<String> = expected_starts(&case).iter().map(|(i, s)| format!("{}@{}", case.path(*i), s)).collect();
    println!("expected start sequence: {want:?}");
    if f.is_empty() {
        println!("no violation");
        0
    } else {
        for (k, d) in f {
            println!("VIOLATION reproduced: C12/{k}: {d}");
        }
        1
    }
}
