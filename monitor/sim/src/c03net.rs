//! C03 (net level) — messages scheduled for the same instant are handled in scheduling order.
//!
//! A ring of modules executes a generated emission tree: every message has a scripted list of
//! follow-up emissions (`schedule_at/in` to the module itself, `send`/`send_at/in` over a
//! channel-less gate chain to the ring neighbour) with absolute target instants on a coarse grid,
//! so that many messages tie. Only what the statement fixes for *any* internal event structure is
//! judged (how many internal events a send takes is not assumed):
//!
//! * I2: messages emitted at an earlier instant for the same instant T ("roots") are handled in
//!   emission order;
//! * I3: everything a root's handling triggers within T (zero-delay follow-ups, transitively) is
//!   handled before the next root of T;
//! * I1: two emissions of the same kind over the same path made for the *current* instant are
//!   handled in emission order (same handler or not);
//! * every message is handled exactly once, at its target instant, by the declared module;
//! * the handling order of the whole run does not change with the calendar-queue parameters,
//!   with an unrelated population of modules and events, or after a junk allocation phase.

use des::prelude::*;
use serde::{Deserialize, Serialize};
use serde_json::{json, Value};
use std::cell::RefCell;
use std::rc::Rc;
use vcommon::{Args, Hasher64, Report, Rng};

#[derive(Debug, Clone, Copy, PartialEq, Eq, Serialize, Deserialize)]
pub enum Kind {
    /// schedule_at / schedule_in: handled by the emitting module
    Own,
    /// send / send_at / send_in on gate "out": handled by the ring successor
    Send,
}

#[derive(Debug, Clone, Serialize, Deserialize, PartialEq)]
pub struct Msg {
    pub kind: Kind,
    /// absolute target instant (ns)
    pub at: u64,
    /// indices (= message ids) of the follow-up emissions, in program order
    pub emits: Vec<usize>,
}

#[derive(Debug, Clone, Serialize, Deserialize, PartialEq)]
pub struct Case {
    pub mods: usize,
    /// transit gates on the chain m[i].out -> m[i+1].in
    pub transit: Vec<usize>,
    pub msgs: Vec<Msg>,
    /// emissions made in at_sim_start, per module
    pub start: Vec<Vec<usize>>,
    pub n: usize,
    pub t_ns: u64,
}

#[derive(Debug, Clone, Copy, PartialEq, Eq)]
pub enum Entry {
    Start(usize),
    Handle { module: usize, id: usize, now: u64 },
}

#[derive(Debug, Clone, Copy, PartialEq, Eq)]
pub struct Variant {
    pub n: usize,
    pub t_ns: u64,
    /// unrelated modules with self messages at off-grid instants
    pub population: usize,
    pub junk: bool,
}

thread_local! {
    static LOG: RefCell<Vec<Entry>> = const { RefCell::new(Vec::new()) };
    static SCRIPT: RefCell<Option<Rc<Case>>> = const { RefCell::new(None) };
}

const K_CASE: u16 = 21;

fn now_ns() -> u64 {
    SimTime::now().as_nanos() as u64
}

fn emit(case: &Case, id: usize) {
    let m = &case.msgs[id];
    let msg = Message::default().kind(K_CASE).id(id as u16);
    let now = now_ns();
    let at = SimTime::from_duration(Duration::from_nanos(m.at));
    let dur = Duration::from_nanos(m.at - now);
    match (m.kind, id % 2) {
        (Kind::Own, 0) => schedule_at(msg, at),
        (Kind::Own, _) => schedule_in(msg, dur),
        (Kind::Send, 0) => send_at(msg, "out", at),
        (Kind::Send, _) => {
            if m.at == now {
                send(msg, "out");
            } else {
                send_in(msg, "out", dur);
            }
        }
    }
}

struct Node {
    idx: usize,
}

impl Module for Node {
    fn at_sim_start(&mut self, _: usize) {
        LOG.with(|l| l.borrow_mut().push(Entry::Start(self.idx)));
        let case = SCRIPT.with(|s| s.borrow().clone()).expect("script");
        for id in &case.start[self.idx] {
            emit(&case, *id);
        }
    }

    fn handle_message(&mut self, msg: Message) {
        if msg.header().kind != K_CASE {
            return;
        }
        let id = msg.header().id as usize;
        LOG.with(|l| l.borrow_mut().push(Entry::Handle { module: self.idx, id, now: now_ns() }));
        let case = SCRIPT.with(|s| s.borrow().clone()).expect("script");
        for child in &case.msgs[id].emits {
            emit(&case, *child);
        }
    }
}

/// unrelated population: self messages at instants that never coincide with the grid
struct Bystander {
    times: Vec<u64>,
}

impl Module for Bystander {
    fn at_sim_start(&mut self, _: usize) {
        for t in &self.times {
            schedule_at(Message::default().kind(99), SimTime::from_duration(Duration::from_nanos(*t)));
        }
    }
    fn handle_message(&mut self, _: Message) {}
}

pub fn execute(case: &Case, v: Variant) -> Result<Vec<Entry>, String> {
    LOG.with(|l| l.borrow_mut().clear());
    SCRIPT.with(|s| *s.borrow_mut() = Some(Rc::new(case.clone())));
    let horizon = case.msgs.iter().map(|m| m.at).max().unwrap_or(0);
    let res = vcommon::catch(|| {
        let junk: Vec<Vec<u8>> = if v.junk { (0..64).map(|i| vec![i as u8; 24 + 40 * i]).collect() } else { Vec::new() };
        let mut sim = Sim::new(());
        // bystanders first or last, so that module ids and creation order of the case's modules shift
        let times: Vec<u64> = (0..40).map(|j| (horizon + 7) * (j as u64 + 1) / 41 * 2 + 1).filter(|t| case.msgs.iter().all(|m| m.at != *t)).collect();
        for k in 0..v.population / 2 {
            sim.node(format!("by{k}"), Bystander { times: times.clone() });
        }
        for i in 0..case.mods {
            sim.node(format!("m{i}"), Node { idx: i });
        }
        for k in v.population / 2..v.population {
            sim.node(format!("by{k}"), Bystander { times: times.clone() });
        }
        for i in 0..case.mods {
            let j = (i + 1) % case.mods;
            let mut prev = sim.gate(format!("m{i}").as_str(), "out");
            for h in 0..case.transit[i] {
                let g = sim.gate(format!("m{}", (i + h) % case.mods).as_str(), &format!("t{i}_{h}"));
                prev.connect(g.clone(), None);
                prev = g;
            }
            let dst = sim.gate(format!("m{j}").as_str(), "in");
            prev.connect(dst, None);
        }
        drop(junk);
        #[allow(unused_mut)]
        let mut b = Builder::seeded(3).quiet();
        #[cfg(feature = "cq")]
        {
            b = b.cqueue_options(v.n, Duration::from_nanos(v.t_ns));
        }
        let rt = b.build(sim.freeze());
        rt.run().map(|_| ()).map_err(|e| format!("{e}"))
    });
    SCRIPT.with(|s| *s.borrow_mut() = None);
    let log = LOG.with(|l| std::mem::take(&mut *l.borrow_mut()));
    match res {
        Ok(Ok(())) => Ok(log),
        Ok(Err(e)) => Err(format!("run() failed: {e}")),
        Err(p) => Err(format!("panicked: {p}")),
    }
}

pub type Finding = (&'static str, String);

#[derive(Default)]
pub struct Obs {
    pub handled: u64,
    pub tie_groups: u64,
    pub root_pairs: u64,
    pub family_members: u64,
    pub current_instant_pairs: u64,
}

/// owner of every message (the module that must handle it); None if never emitted
fn owners(case: &Case) -> Vec<Option<usize>> {
    let mut owner = vec![None; case.msgs.len()];
    let mut stack: Vec<(usize, usize)> = Vec::new(); // (emitting module, msg)
    for (m, ids) in case.start.iter().enumerate() {
        for id in ids {
            stack.push((m, *id));
        }
    }
    while let Some((from, id)) = stack.pop() {
        let o = match case.msgs[id].kind {
            Kind::Own => from,
            Kind::Send => (from + 1) % case.mods,
        };
        owner[id] = Some(o);
        for c in &case.msgs[id].emits {
            stack.push((o, *c));
        }
    }
    owner
}

pub fn check(case: &Case, log: &[Entry]) -> (Vec<Finding>, Obs) {
    let mut f = Vec::new();
    let mut obs = Obs::default();
    let n = case.msgs.len();
    let owner = owners(case);
    // ---- exactly once, at the target instant, by the declared module
    let mut pos: Vec<Option<usize>> = vec![None; n];
    for (p, e) in log.iter().enumerate() {
        if let Entry::Handle { module, id, now } = *e {
            if id >= n {
                f.push(("phantom", format!("a message with the unknown id {id} was handled by m{module}")));
                return (f, obs);
            }
            if pos[id].is_some() {
                f.push(("handled-twice", format!("message {id} was handled twice")));
                return (f, obs);
            }
            pos[id] = Some(p);
            obs.handled += 1;
            if now != case.msgs[id].at {
                f.push(("wrong-time", format!("message {id} scheduled for {} ns was handled at {now} ns", case.msgs[id].at)));
            }
            if Some(module) != owner[id] {
                f.push(("wrong-module", format!("message {id} was handled by m{module}, addressed was {:?}", owner[id])));
            }
        }
    }
    for id in 0..n {
        if owner[id].is_some() && pos[id].is_none() {
            f.push(("lost", format!("message {id} ({:?} for {} ns) was never handled", case.msgs[id].kind, case.msgs[id].at)));
        }
    }
    if !f.is_empty() {
        return (f, obs);
    }
    // ---- emission order and emission instant, reconstructed from the log (handlers in log order,
    //      emissions in program order)
    let mut emit_seq = vec![usize::MAX; n];
    let mut emit_time = vec![0u64; n];
    let mut emit_from = vec![usize::MAX; n];
    let mut parent: Vec<Option<usize>> = vec![None; n];
    let mut seq = 0usize;
    for e in log {
        let (list, now, from, par): (&Vec<usize>, u64, usize, Option<usize>) = match *e {
            Entry::Start(m) => (&case.start[m], 0, m, None),
            Entry::Handle { module, id, now } => (&case.msgs[id].emits, now, module, Some(id)),
        };
        for id in list {
            emit_seq[*id] = seq;
            emit_time[*id] = now;
            emit_from[*id] = from;
            parent[*id] = par;
            seq += 1;
        }
    }
    let emitted: Vec<usize> = (0..n).filter(|id| owner[*id].is_some()).collect();
    // ---- I2 + I3 per instant
    let mut instants: Vec<u64> = emitted.iter().map(|id| case.msgs[*id].at).collect();
    instants.sort_unstable();
    instants.dedup();
    for t in instants {
        let mut roots: Vec<usize> = emitted.iter().copied().filter(|id| case.msgs[*id].at == t && emit_time[*id] < t).collect();
        let members = emitted.iter().filter(|id| case.msgs[**id].at == t).count();
        if members >= 2 {
            obs.tie_groups += 1;
        }
        roots.sort_by_key(|id| emit_seq[*id]);
        for w in roots.windows(2) {
            obs.root_pairs += 1;
            let (a, b) = (w[0], w[1]);
            if pos[a].unwrap() > pos[b].unwrap() {
                f.push((
                    "reordered",
                    format!(
                        "messages {a} and {b} were scheduled in this order (from instants {} ns and {} ns) for the same instant {t} ns, but {b} was handled first",
                        emit_time[a], emit_time[b]
                    ),
                ));
                return (f, obs);
            }
        }
        // family of a root = messages for t whose ancestor chain within t ends in that root
        for id in emitted.iter().copied().filter(|id| case.msgs[*id].at == t && emit_time[*id] == t) {
            let mut r = id;
            while case.msgs[r].at == t && emit_time[r] == t {
                match parent[r] {
                    Some(p) => r = p,
                    None => break,
                }
            }
            if case.msgs[r].at != t || emit_time[r] >= t {
                continue; // started by at_sim_start at instant 0: no root
            }
            obs.family_members += 1;
            let k = roots.iter().position(|x| *x == r).expect("root");
            if let Some(next) = roots.get(k + 1) {
                if pos[id].unwrap() > pos[*next].unwrap() {
                    f.push((
                        "current-instant-not-first",
                        format!(
                            "message {id} was scheduled for the current instant {t} ns while message {r} was being processed, but message {next}, scheduled earlier from {} ns for {t} ns, ran before it",
                            emit_time[*next]
                        ),
                    ));
                    return (f, obs);
                }
            }
        }
    }
    // ---- I1: same kind, same path, both emitted for the instant that was current
    let mut cur: Vec<usize> = emitted.iter().copied().filter(|id| emit_time[*id] == case.msgs[*id].at).collect();
    cur.sort_by_key(|id| emit_seq[*id]);
    for (i, a) in cur.iter().enumerate() {
        for b in cur[i + 1..].iter() {
            let (ma, mb) = (&case.msgs[*a], &case.msgs[*b]);
            if ma.at != mb.at || ma.kind != mb.kind {
                continue;
            }
            if ma.kind == Kind::Send && emit_from[*a] != emit_from[*b] {
                continue;
            }
            obs.current_instant_pairs += 1;
            if pos[*a].unwrap() > pos[*b].unwrap() {
                f.push((
                    "reordered",
                    format!("messages {a} and {b} ({:?}) were emitted in this order for the current instant {} ns, but {b} was handled first", ma.kind, ma.at),
                ));
                return (f, obs);
            }
        }
    }
    (f, obs)
}

pub const CONFIGS: &[(usize, u64)] = &[(1, 1), (2, 1), (2, 5), (3, 7), (7, 2), (10, 100), (32, 1000), (1024, 50), (1028, 3)];

pub fn gen_case(rng: &mut Rng) -> Case {
    let mods = 1 + rng.usize_below(4);
    let (n, t_ns) = *rng.pick(CONFIGS);
    let year = n as u64 * t_ns;
    // grid: sub-bucket, bucket, half year, year (ties that straddle a year wrap), odd
    let grid = (*rng.pick(&[t_ns.div_ceil(2), t_ns, year.div_ceil(2), year, 3 * t_ns + 1, 2 * year])).max(1);
    let slots = 2 + rng.below(9);
    let budget = 20 + rng.usize_below(140);
    let mut msgs: Vec<Msg> = Vec::new();
    let mut start: Vec<Vec<usize>> = vec![Vec::new(); mods];
    // (msg index, zero-delay depth so far)
    let mut open: Vec<(usize, usize)> = Vec::new();
    let pick_kind = |rng: &mut Rng| if rng.chance(1, 2) { Kind::Own } else { Kind::Send };
    for s in start.iter_mut() {
        for _ in 0..rng.usize_below(5) {
            let at = if rng.chance(1, 4) { 0 } else { rng.below(slots) * grid };
            msgs.push(Msg { kind: pick_kind(rng), at, emits: Vec::new() });
            s.push(msgs.len() - 1);
            open.push((msgs.len() - 1, 0));
        }
    }
    if msgs.is_empty() {
        msgs.push(Msg { kind: Kind::Own, at: grid, emits: Vec::new() });
        start[0].push(0);
        open.push((0, 0));
    }
    // one handler of every eighth case emits a large burst: an emission for a later instant first, then 33..70
    // emissions of one kind for one earlier instant (what a handler buffers is handed over in program order)
    let mut burst_parent: Option<usize> = if rng.chance(1, 8) { Some(rng.usize_below(msgs.len())) } else { None };
    while msgs.len() < budget && !open.is_empty() {
        if let Some(p) = burst_parent.take() {
            let kind = pick_kind(rng);
            let same = rng.chance(1, 2);
            let at = if same { msgs[p].at } else { msgs[p].at + grid };
            msgs.push(Msg { kind: pick_kind(rng), at: at + (1 + rng.below(3)) * grid, emits: Vec::new() });
            let first = msgs.len() - 1;
            msgs[p].emits.push(first);
            for _ in 0..33 + rng.usize_below(38) {
                msgs.push(Msg { kind, at, emits: Vec::new() });
                let id = msgs.len() - 1;
                msgs[p].emits.push(id);
            }
            continue;
        }
        let k = rng.usize_below(open.len());
        let (p, depth) = open.swap_remove(k);
        let children = rng.usize_below(4);
        for _ in 0..children {
            if msgs.len() >= budget {
                break;
            }
            let same = depth < 5 && rng.chance(1, 2);
            let at = if same { msgs[p].at } else { msgs[p].at + (1 + rng.below(3)) * grid };
            // siblings for one instant: mostly one kind (so that I1 has something to compare)
            let kind = match msgs[p].emits.last() {
                Some(l) if rng.chance(3, 4) => msgs[*l].kind,
                _ => pick_kind(rng),
            };
            msgs.push(Msg { kind, at, emits: Vec::new() });
            let id = msgs.len() - 1;
            msgs[p].emits.push(id);
            open.push((id, if same { depth + 1 } else { 0 }));
        }
    }
    let transit = (0..mods).map(|_| rng.usize_below(3)).collect();
    Case { mods, transit, msgs, start, n, t_ns }
}

fn case_hash(c: &Case) -> u64 {
    let mut h = Hasher64::new();
    h.str(&serde_json::to_string(c).unwrap());
    h.finish()
}

pub fn case_json(case: &Case) -> Value {
    json!({"driver": "desmon", "sub": "c03net", "case": serde_json::to_value(case).unwrap()})
}

fn variants(case: &Case, rng: &mut Rng) -> Vec<Variant> {
    let base = Variant { n: case.n, t_ns: case.t_ns, population: 0, junk: false };
    let horizon = case.msgs.iter().map(|m| m.at).max().unwrap_or(0);
    let mut out = vec![base];
    // other queue parameters (bucket width bounded so that the scan over the horizon stays short)
    for _ in 0..2 {
        let (n, t) = *rng.pick(CONFIGS);
        let t = t.max(horizon / 200_000 + 1);
        out.push(Variant { n, t_ns: t, population: 0, junk: false });
    }
    out.push(Variant { population: 1 + rng.usize_below(4), ..base });
    out.push(Variant { junk: true, population: rng.usize_below(3), ..base });
    out
}

pub fn run_case(case: &Case, rng: &mut Rng) -> (Vec<Finding>, Obs) {
    let vs = variants(case, rng);
    let mut reference: Option<Vec<Entry>> = None;
    let mut obs_all = Obs::default();
    for (i, v) in vs.iter().enumerate() {
        let log = match execute(case, *v) {
            Ok(l) => l,
            Err(e) => return (vec![("run-error", format!("{e} (variant {v:?})"))], obs_all),
        };
        let (f, obs) = check(case, &log);
        if i == 0 {
            obs_all = obs;
        }
        if !f.is_empty() {
            return (f.into_iter().map(|(k, d)| (k, format!("{d} (queue n={} t={} ns, {} bystanders, junk {})", v.n, v.t_ns, v.population, v.junk))).collect(), obs_all);
        }
        match &reference {
            None => reference = Some(log),
            Some(r) => {
                if *r != log {
                    let at = r.iter().zip(log.iter()).position(|(a, b)| a != b).unwrap_or(r.len().min(log.len()));
                    return (
                        vec![(
                            "order-depends-on-environment",
                            format!(
                                "the handling order differs between queue n={} t={} ns without bystanders and {v:?}: first difference at log position {at}: {:?} vs {:?}",
                                vs[0].n,
                                vs[0].t_ns,
                                r.get(at),
                                log.get(at)
                            ),
                        )],
                        obs_all,
                    );
                }
            }
        }
    }
    (Vec::new(), obs_all)
}

pub fn cmd(args: &Args) -> Report {
    let mut rep = Report::new("C03");
    let mut rng = Rng::new(args.stream_seed("c03net"));
    let cases = args.cases(160_000, 4_000_000);
    for i in 0..cases {
        let case = gen_case(&mut rng);
        vcommon::mark_case(&format!("c03net:{}:{}:{}", args.seed, args.shard, i));
        let (findings, obs) = run_case(&case, &mut rng);
        rep.eval();
        rep.count("net_messages_handled", obs.handled);
        rep.count("net_tie_groups", obs.tie_groups);
        rep.count("net_root_pairs_same_instant", obs.root_pairs);
        rep.count("net_zero_delay_followups_before_next_root", obs.family_members);
        rep.count("net_current_instant_pairs", obs.current_instant_pairs);
        rep.count("net_variant_runs", 5);
        if case.msgs.iter().any(|m| m.emits.len() > 32) {
            rep.count("net_handlers_emitting_more_than_32_messages", 1);
        }
        if findings.is_empty() && obs.root_pairs + obs.current_instant_pairs > 0 {
            rep.nontrivial(case_hash(&case));
            if rep.wants_sample() && case.msgs.len() <= 24 {
                rep.sample(json!({"net_case": serde_json::to_value(&case).unwrap(), "tie_groups": obs.tie_groups}));
            }
        }
        let mut stop = false;
        for (kind, detail) in findings.into_iter().take(2) {
            if !rep.violation(&format!("C03/net-{kind}"), &detail, case_json(&case)) {
                stop = true;
            }
        }
        if stop {
            break;
        }
    }
    rep
}

pub fn replay(v: &Value) -> i32 {
    let case: Case = serde_json::from_value(v.get("case").expect("case").clone()).expect("case");
    println!("case: {} modules, {} messages, queue n={} t={} ns", case.mods, case.msgs.len(), case.n, case.t_ns);
    let mut rng = Rng::new(1);
    let (f, _) = run_case(&case, &mut rng);
    if f.is_empty() {
        println!("no violation");
        0
    } else {
        for (k, d) in f {
            println!("VIOLATION reproduced: C03/net-{k}: {d}");
        }
        1
    }
}
