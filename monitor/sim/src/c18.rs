//! C18 — NDL elaboration is total and the built simulation matches the description.
//!
//! A grammar-based generator produces valid network descriptions (inheritance, clusters, nested
//! submodules, indexed and cluster-to-cluster connections, links, generics with bounds) whose
//! wiring is realisable; an independent reference elaborator computes the modules (path ->
//! symbol), gate clusters and direct gate connections (with link parameters) they denote. The
//! real pipeline (YAML -> Def -> transform -> build) must produce exactly that. Single-point
//! mutations of valid documents must yield a descriptive error, never a panic.

use des::net::ndl::{Ndl, Registry, RegistryCreatable};
use des::prelude::*;
use des_net_utils::ndl::def::{ConnectionEndpointDef, Def, FieldDef, Kardinality, TypClause};
use des_net_utils::ndl::error::ErrorKind;
use serde::{Deserialize, Serialize};
use serde_json::{json, Value};
use std::cell::RefCell;
use std::collections::{BTreeMap, BTreeSet};
use std::str::FromStr;
use vcommon::{Args, Hasher64, Report, Rng};

// -------------------------------------------------------------------------------------------------
// document model
// -------------------------------------------------------------------------------------------------

#[derive(Debug, Clone, Serialize, Deserialize, PartialEq)]
pub struct Field {
    pub name: String,
    /// None = atom, Some(n) = cluster of n
    pub card: Option<usize>,
}

#[derive(Debug, Clone, Serialize, Deserialize, PartialEq)]
pub struct Sub {
    pub field: Field,
    pub typ: String,
    pub args: Vec<String>,
}

/// accessor path: submodule accessors ... then the gate accessor; each with an optional index
pub type Endpoint = Vec<(String, Option<usize>)>;

#[derive(Debug, Clone, Serialize, Deserialize, PartialEq)]
pub struct Conn {
    pub a: Endpoint,
    pub b: Endpoint,
    pub link: Option<String>,
}

#[derive(Debug, Clone, Serialize, Deserialize, PartialEq)]
pub struct ModDecl {
    pub name: String,
    /// (binding, bound)
    pub generics: Vec<(String, String)>,
    pub inherit: Option<String>,
    pub gates: Vec<Field>,
    pub subs: Vec<Sub>,
    pub conns: Vec<Conn>,
}

#[derive(Debug, Clone, Serialize, Deserialize, PartialEq)]
pub struct Doc {
    pub entry: String,
    pub modules: Vec<ModDecl>,
    /// (name, latency ms, bitrate)
    pub links: Vec<(String, u64, u32)>,
}

fn field_str(f: &Field) -> String {
    match f.card {
        None => f.name.clone(),
        Some(n) => format!("{}[{n}]", f.name),
    }
}

fn endpoint_str(e: &Endpoint) -> String {
    e.iter().map(|(n, i)| i.map_or_else(|| n.clone(), |i| format!("{n}[{i}]"))).collect::<Vec<_>>().join("/")
}

pub fn render(doc: &Doc) -> String {
    let mut s = format!("entry: {}\nmodules:\n", doc.entry);
    for m in &doc.modules {
        let head = if m.generics.is_empty() {
            m.name.clone()
        } else {
            format!("{}({})", m.name, m.generics.iter().map(|(b, i)| format!("{b} <- {i}")).collect::<Vec<_>>().join(", "))
        };
        s.push_str(&format!("  \"{head}\":\n"));
        let mut empty = true;
        if let Some(p) = &m.inherit {
            s.push_str(&format!("    inherit: {p}\n"));
            empty = false;
        }
        if !m.gates.is_empty() {
            s.push_str("    gates:\n");
            for g in &m.gates {
                s.push_str(&format!("    - \"{}\"\n", field_str(g)));
            }
            empty = false;
        }
        if !m.subs.is_empty() {
            s.push_str("    submodules:\n");
            for sub in &m.subs {
                let t = if sub.args.is_empty() { sub.typ.clone() } else { format!("{}({})", sub.typ, sub.args.join(", ")) };
                s.push_str(&format!("      \"{}\": \"{t}\"\n", field_str(&sub.field)));
            }
            empty = false;
        }
        if !m.conns.is_empty() {
            s.push_str("    connections:\n");
            for c in &m.conns {
                s.push_str(&format!("    - peers:\n      - \"{}\"\n      - \"{}\"\n", endpoint_str(&c.a), endpoint_str(&c.b)));
                if let Some(l) = &c.link {
                    s.push_str(&format!("      link: {l}\n"));
                }
            }
            empty = false;
        }
        if empty {
            // an empty module: replace the dangling key by an explicit empty mapping
            s.truncate(s.len() - 1);
            s.push_str(" {}\n");
        }
    }
    if !doc.links.is_empty() {
        s.push_str("links:\n");
        for (name, lat_ms, bitrate) in &doc.links {
            s.push_str(&format!("  {name}:\n    latency: {}\n    jitter: 0.0\n    bitrate: {bitrate}\n", *lat_ms as f64 / 1000.0));
        }
    }
    s
}

// -------------------------------------------------------------------------------------------------
// reference elaborator
// -------------------------------------------------------------------------------------------------

#[derive(Debug, Clone, PartialEq, Eq, PartialOrd, Ord, Serialize, Deserialize)]
pub struct GateId {
    pub module: String,
    pub gate: String,
    pub pos: usize,
}

#[derive(Debug, Default, Clone, PartialEq)]
pub struct Expected {
    /// module path -> symbol
    pub modules: BTreeMap<String, String>,
    /// (module path, gate name) -> cluster size
    pub gates: BTreeMap<(String, String), usize>,
    /// unordered pairs with (latency ns, bitrate) if linked
    pub conns: BTreeSet<(GateId, GateId, Option<(u64, u32)>)>,
}

/// effective definition of a module type: inheritance flattened, type arguments substituted
#[derive(Debug, Clone)]
struct Flat {
    symbol: String,
    gates: Vec<Field>,
    /// (field, effective type of the submodule)
    subs: Vec<(Field, Flat)>,
    conns: Vec<Conn>,
}

fn flatten(doc: &Doc, name: &str, binds: &BTreeMap<String, String>, depth: usize) -> Flat {
    assert!(depth < 40, "reference: recursion in a generated document");
    let m = doc.modules.iter().find(|m| m.name == name).expect("reference: known module");
    let mut gates = m.gates.clone();
    let mut subs: Vec<(Field, Flat)> = Vec::new();
    for s in &m.subs {
        // a field typed with a binding becomes the argument type
        let concrete = binds.get(&s.typ).cloned().unwrap_or_else(|| s.typ.clone());
        let target = doc.modules.iter().find(|x| x.name == concrete).expect("reference: known type");
        let inner: BTreeMap<String, String> = target.generics.iter().map(|(b, _)| b.clone()).zip(s.args.iter().map(|a| binds.get(a).cloned().unwrap_or_else(|| a.clone()))).collect();
        subs.push((s.field.clone(), flatten(doc, &concrete, &inner, depth + 1)));
    }
    let mut conns = Vec::new();
    if let Some(p) = &m.inherit {
        let parent = flatten(doc, p, &BTreeMap::new(), depth + 1);
        gates.extend(parent.gates);
        subs.extend(parent.subs);
        conns.extend(parent.conns);
    }
    conns.extend(m.conns.iter().cloned());
    Flat { symbol: name.to_string(), gates, subs, conns }
}

fn join(path: &str, name: &str) -> String {
    if path.is_empty() {
        name.to_string()
    } else {
        format!("{path}.{name}")
    }
}

/// all gate instances an endpoint denotes, in expansion order
fn expand(flat: &Flat, path: &str, ep: &[(String, Option<usize>)]) -> Vec<GateId> {
    let (name, idx) = &ep[0];
    if ep.len() == 1 {
        let g = flat.gates.iter().find(|g| g.name == *name).expect("reference: gate exists");
        match (g.card, idx) {
            (None, None) => vec![GateId { module: path.to_string(), gate: name.clone(), pos: 0 }],
            (Some(_), Some(i)) => vec![GateId { module: path.to_string(), gate: name.clone(), pos: *i }],
            (Some(n), None) => (0..n).map(|i| GateId { module: path.to_string(), gate: name.clone(), pos: i }).collect(),
            (None, Some(_)) => panic!("reference: index into an atom"),
        }
    } else {
        let (f, t) = flat.subs.iter().find(|(f, _)| f.name == *name).expect("reference: submodule exists");
        let names: Vec<String> = match (f.card, idx) {
            (None, None) => vec![name.clone()],
            (Some(_), Some(i)) => vec![format!("{name}[{i}]")],
            (Some(n), None) => (0..n).map(|i| format!("{name}[{i}]")).collect(),
            (None, Some(_)) => panic!("reference: index into an atom"),
        };
        names.iter().flat_map(|n| expand(t, &join(path, n), &ep[1..])).collect()
    }
}

fn instantiate(doc: &Doc, flat: &Flat, path: &str, out: &mut Expected) {
    out.modules.insert(path.to_string(), flat.symbol.clone());
    for g in &flat.gates {
        out.gates.insert((path.to_string(), g.name.clone()), g.card.unwrap_or(1));
    }
    for (f, t) in &flat.subs {
        match f.card {
            None => instantiate(doc, t, &join(path, &f.name), out),
            Some(n) => {
                for k in 0..n {
                    instantiate(doc, t, &join(path, &format!("{}[{k}]", f.name)), out);
                }
            }
        }
    }
    for c in &flat.conns {
        let a = expand(flat, path, &c.a);
        let b = expand(flat, path, &c.b);
        assert_eq!(a.len(), b.len(), "reference: generated connection with unequal peers");
        let link = c.link.as_ref().map(|l| {
            let (_, lat_ms, bitrate) = doc.links.iter().find(|x| x.0 == *l).expect("reference: link exists");
            (lat_ms * 1_000_000, *bitrate)
        });
        for (x, y) in a.into_iter().zip(b) {
            let (x, y) = if x <= y { (x, y) } else { (y, x) };
            out.conns.insert((x, y, link));
        }
    }
}

pub fn elaborate(doc: &Doc) -> Expected {
    let mut out = Expected::default();
    let flat = flatten(doc, &doc.entry, &BTreeMap::new(), 0);
    instantiate(doc, &flat, "", &mut out);
    out
}

// -------------------------------------------------------------------------------------------------
// the real pipeline
// -------------------------------------------------------------------------------------------------

thread_local! {
    static CREATED: RefCell<Vec<(String, String)>> = const { RefCell::new(Vec::new()) };
}

pub struct Rec;
impl Module for Rec {}
impl RegistryCreatable for Rec {
    fn create(path: &ObjectPath, symbol: &str) -> Self {
        CREATED.with(|c| c.borrow_mut().push((path.as_str().to_string(), symbol.to_string())));
        Rec
    }
}

pub const POOL: usize = 12;

macro_rules! full_registry {
    () => {
        Registry::new()
            .symbol::<Rec>("M0")
            .symbol::<Rec>("M1")
            .symbol::<Rec>("M2")
            .symbol::<Rec>("M3")
            .symbol::<Rec>("M4")
            .symbol::<Rec>("M5")
            .symbol::<Rec>("M6")
            .symbol::<Rec>("M7")
            .symbol::<Rec>("M8")
            .symbol::<Rec>("M9")
            .symbol::<Rec>("M10")
            .symbol::<Rec>("M11")
            .symbol::<Rec>("NX")
            .symbol::<Rec>("NY")
            .symbol::<Rec>("NBox")
            .symbol::<Rec>("NIface")
            .symbol::<Rec>("NImpl")
            .symbol::<Rec>("NHost")
    };
}

#[derive(Debug)]
pub enum Built {
    /// parsing or elaboration or building returned an error: (stage, kind debug, display)
    Error { stage: &'static str, kind: String, display: String },
    Ok(Expected),
    Panicked(String),
}

thread_local! {
    /// which public entry point `build` goes through (the driver rotates it): 0 Def + Ndl::new + Sim::node,
    /// 1 Ndl::from_str + Sim::node, 2 Def + Sim::nodes_from_ndl, 3 Sim::with_ndl(file), 4 Ndl::from_file + Sim::node
    pub static ENTRY: std::cell::Cell<u8> = const { std::cell::Cell::new(0) };
}

pub const ENTRY_NAMES: [&str; 5] = ["Ndl::new", "Ndl::from_str", "Sim::nodes_from_ndl", "Sim::with_ndl(file)", "Ndl::from_file"];

fn temp_document(text: &str) -> std::path::PathBuf {
    let p = std::env::temp_dir().join(format!("verif-c18-{}-{:?}.yml", std::process::id(), std::thread::current().id()));
    std::fs::write(&p, text).expect("temp file for the description");
    p
}

pub fn build(text: &str) -> Built {
    CREATED.with(|c| c.borrow_mut().clear());
    let entry = if cfg!(miri) { ENTRY.with(std::cell::Cell::get) % 3 } else { ENTRY.with(std::cell::Cell::get) };
    let r = vcommon::catch(|| {
        let mut sim = Sim::new(());
        let mut registry = full_registry!();
        match entry {
            1 | 4 => {
                let ndl = if entry == 1 {
                    Ndl::from_str(&mut registry, text)
                } else {
                    let path = temp_document(text);
                    let r = Ndl::from_file(&mut registry, &path);
                    let _ = std::fs::remove_file(&path);
                    r
                };
                let ndl = match ndl {
                    Ok(n) => n,
                    Err(e) => return Built::Error { stage: "parse / transform", kind: format!("{:?}", e.kind), display: e.to_string() },
                };
                if let Err(e) = sim.node("", ndl) {
                    return Built::Error { stage: "build", kind: format!("{:?}", e.kind), display: e.to_string() };
                }
            }
            3 => {
                let path = temp_document(text);
                let r = sim.with_ndl(&path, &mut registry);
                let _ = std::fs::remove_file(&path);
                match r {
                    Ok(s) => sim = s,
                    Err(e) => return Built::Error { stage: "parse / transform / build", kind: format!("{:?}", e.kind), display: e.to_string() },
                }
            }
            _ => {
                let def: Def = match serde_yml::from_str(text) {
                    Ok(d) => d,
                    Err(e) => return Built::Error { stage: "parse", kind: "Parse".into(), display: e.to_string() },
                };
                if let Err(e) = des_net_utils::ndl::transform(&def) {
                    return Built::Error { stage: "transform", kind: format!("{:?}", e.kind), display: e.to_string() };
                }
                if entry == 2 {
                    if let Err(e) = sim.nodes_from_ndl(&def, &mut registry) {
                        return Built::Error { stage: "build", kind: format!("{:?}", e.kind), display: e.to_string() };
                    }
                } else {
                    let ndl = match Ndl::new(&mut registry, &def) {
                        Ok(n) => n,
                        Err(e) => return Built::Error { stage: "transform", kind: format!("{:?}", e.kind), display: e.to_string() },
                    };
                    if let Err(e) = sim.node("", ndl) {
                        return Built::Error { stage: "build", kind: format!("{:?}", e.kind), display: e.to_string() };
                    }
                }
            }
        }
        // observe the built simulation through the public API
        let mut got = Expected::default();
        let created = CREATED.with(|c| c.borrow().clone());
        for (path, symbol) in created {
            got.modules.insert(path, symbol);
        }
        let paths: Vec<ObjectPath> = sim.nodes().collect();
        for p in &paths {
            let m = sim.get(p).expect("listed module exists");
            got.modules.entry(p.as_str().to_string()).or_insert_with(|| "<not created through the registry>".to_string());
            for g in m.gates() {
                got.gates.insert((p.as_str().to_string(), g.name().to_string()), g.size());
                // direct connections of this gate: both connection slots, read through the public Connection type
                // (rings of gates have no endpoint from which a chain walk could start)
                for slot in [0usize, 1] {
                    let probe = des::net::gate::Connection { endpoint: g.clone(), endpoint_id: slot, channel: None };
                    if let Some(con) = probe.next_hop() {
                        let id = |x: &GateRef| GateId { module: x.owner().path().as_str().to_string(), gate: x.name().to_string(), pos: x.pos() };
                        let link = con.channel().map(|ch| {
                            let mt = ch.metrics();
                            (mt.latency.as_nanos() as u64, mt.bitrate as u32)
                        });
                        let (a, b) = (id(&g), id(&con.endpoint));
                        let (a, b) = if a <= b { (a, b) } else { (b, a) };
                        got.conns.insert((a, b, link));
                    }
                }
            }
        }
        if paths.len() != got.modules.len() {
            got.modules.insert("<count>".into(), format!("{} nodes listed, {} created", paths.len(), got.modules.len()));
        }
        drop(sim);
        Built::Ok(got)
    });
    match r {
        Ok(b) => b,
        Err(p) => Built::Panicked(p),
    }
}

// -------------------------------------------------------------------------------------------------
// generator of valid documents
// -------------------------------------------------------------------------------------------------

struct GenInfo {
    /// effective gates (own + inherited) per module
    gates: Vec<Vec<Field>>,
    /// gates of the module that are already connected inside the module itself (as local gates)
    local_used: Vec<BTreeSet<String>>,
    /// child gates ("field/gate") connected by the module itself or by what it inherits
    child_used: Vec<BTreeSet<String>>,
    generic: Vec<bool>,
}

pub fn gen_doc(rng: &mut Rng) -> Doc {
    let n = 2 + rng.usize_below(POOL - 2);
    let links: Vec<(String, u64, u32)> = (0..rng.usize_below(3)).map(|i| (format!("L{i}"), 1 + rng.below(500), *rng.pick(&[0u32, 1000, 1_000_000]))).collect();
    let mut mods: Vec<Option<ModDecl>> = vec![None; n];
    let mut info = GenInfo { gates: vec![Vec::new(); n], local_used: vec![BTreeSet::new(); n], child_used: vec![BTreeSet::new(); n], generic: vec![false; n] };
    // effective submodule fields per module: (field, type index)
    let mut eff_subs: Vec<Vec<(Field, usize)>> = vec![Vec::new(); n];
    for i in (0..n).rev() {
        let name = format!("M{i}");
        let later: Vec<usize> = ((i + 1)..n).collect();
        let mut gates: Vec<Field> = (0..rng.usize_below(4)).map(|k| Field { name: format!("g{i}x{k}"), card: if rng.chance(1, 2) { Some(1 + rng.usize_below(3)) } else { None } }).collect();
        let plain_later: Vec<usize> = later.iter().copied().filter(|j| !info.generic[*j]).collect();
        let inherit = if !plain_later.is_empty() && rng.chance(1, 3) { Some(*rng.pick(&plain_later)) } else { None };
        // generics: one binding whose bound is a plain later module (never on the entry)
        let generics: Vec<(String, usize)> = if i > 0 && !plain_later.is_empty() && rng.chance(1, 5) { vec![("T".to_string(), *rng.pick(&plain_later))] } else { Vec::new() };
        info.generic[i] = !generics.is_empty();
        let mut subs: Vec<Sub> = Vec::new();
        let mut own_subs: Vec<(Field, usize)> = Vec::new();
        for k in 0..rng.usize_below(4) {
            if later.is_empty() {
                break;
            }
            let field = Field { name: format!("s{i}x{k}"), card: if rng.chance(1, 3) { Some(1 + rng.usize_below(3)) } else { None } };
            if let (Some((b, bound)), true) = (generics.first(), rng.chance(1, 2)) {
                subs.push(Sub { field: field.clone(), typ: b.clone(), args: vec![] });
                own_subs.push((field, *bound));
                continue;
            }
            let j = *rng.pick(&later);
            if info.generic[j] {
                // instantiate the generic module with a type that conforms to its bound: the bound itself or an heir
                let bound = mods[j].as_ref().unwrap().generics[0].1.clone();
                let bound_idx: usize = bound[1..].parse().unwrap();
                let heirs: Vec<usize> = (0..n)
                    .filter(|h| *h > i && !info.generic[*h] && (*h == bound_idx || mods[*h].as_ref().is_some_and(|m| m.inherit.as_deref() == Some(bound.as_str()))))
                    .collect();
                if heirs.is_empty() {
                    continue;
                }
                let arg = *rng.pick(&heirs);
                subs.push(Sub { field: field.clone(), typ: format!("M{j}"), args: vec![format!("M{arg}")] });
                // what the instantiated type looks like from outside = module j (its own gates)
                own_subs.push((field, j));
            } else {
                subs.push(Sub { field: field.clone(), typ: format!("M{j}"), args: vec![] });
                own_subs.push((field, j));
            }
        }
        // effective view
        let mut eff_gates = gates.clone();
        let mut eff_sub = own_subs.clone();
        if let Some(p) = inherit {
            eff_gates.extend(info.gates[p].clone());
            eff_sub.extend(eff_subs[p].clone());
            info.local_used[i] = info.local_used[p].clone();
            info.child_used[i] = info.child_used[p].clone();
        }
        // connections: local gate <-> local gate, local gate <-> child gate, child gate <-> child gate
        let mut conns: Vec<Conn> = Vec::new();
        #[derive(Clone)]
        struct Cand {
            ep: Endpoint,
            count: usize,
            key: String,
            local: bool,
        }
        let mut cands: Vec<Cand> = Vec::new();
        for g in &eff_gates {
            if !info.local_used[i].contains(&g.name) {
                cands.push(Cand { ep: vec![(g.name.clone(), None)], count: g.card.unwrap_or(1), key: g.name.clone(), local: true });
            }
        }
        for (f, t) in &eff_sub {
            for g in &info.gates[*t] {
                let key = format!("{}/{}", f.name, g.name);
                if info.child_used[i].contains(&key) {
                    continue;
                }
                cands.push(Cand { ep: vec![(f.name.clone(), None), (g.name.clone(), None)], count: f.card.unwrap_or(1) * g.card.unwrap_or(1), key, local: false });
            }
        }
        // endpoints two submodule levels down (`child/grandchild/gate`), through own, non-generic fields only and
        // always pinned to single instances; the grandchild's gate must not be connected from the child's level
        for (f, t) in &own_subs {
            let concrete = subs.iter().any(|sd| sd.field.name == f.name && sd.typ == format!("M{t}") && sd.args.is_empty());
            if !concrete || info.generic[*t] {
                continue;
            }
            for (gf, gt) in &eff_subs[*t] {
                if info.generic[*gt] || !rng.chance(1, 3) {
                    continue;
                }
                for g in &info.gates[*gt] {
                    let inner_key = format!("{}/{}", gf.name, g.name);
                    if info.child_used[*t].contains(&inner_key) {
                        continue;
                    }
                    let key = format!("{}/{}/{}", f.name, gf.name, g.name);
                    if info.child_used[i].contains(&key) {
                        continue;
                    }
                    let ep: Endpoint = vec![
                        (f.name.clone(), f.card.map(|n| rng.usize_below(n))),
                        (gf.name.clone(), gf.card.map(|n| rng.usize_below(n))),
                        (g.name.clone(), g.card.map(|n| rng.usize_below(n))),
                    ];
                    cands.push(Cand { ep, count: 1, key, local: false });
                }
            }
        }
        rng.shuffle(&mut cands);
        let mut used: BTreeSet<String> = BTreeSet::new();
        for _ in 0..rng.usize_below(4) {
            let free: Vec<Cand> = cands.iter().filter(|c| !used.contains(&c.key)).cloned().collect();
            if free.len() < 2 {
                break;
            }
            let a = free[0].clone();
            // two gates of one and the same child may already be connected to each other inside the child's type
            // (a second connect of the same pair is a no-op): never pair them from outside
            let compatible = |c: &Cand| a.local || c.local || c.ep[0].0 != a.ep[0].0;
            // a partner with the same number of instances, or single indexed instances of both
            let partner = free[1..].iter().find(|c| c.count == a.count && compatible(c)).cloned();
            let (ea, eb) = match partner {
                Some(b) => (a.clone(), b),
                None => {
                    let Some(b) = free[1..].iter().find(|c| compatible(c)).cloned() else { break };
                    (a.clone(), b)
                }
            };
            let (mut pa, mut pb) = (ea.ep.clone(), eb.ep.clone());
            if ea.count != eb.count || rng.chance(1, 4) {
                // pin every cluster on both sides to one index: exactly one instance each
                let pin = |ep: &mut Endpoint, local: bool, rng: &mut Rng| {
                    let gate_decl = if local {
                        eff_gates.iter().find(|g| g.name == ep[0].0).cloned()
                    } else {
                        let (_, t) = eff_sub.iter().find(|(f, _)| f.name == ep[0].0).unwrap();
                        info.gates[*t].iter().find(|g| g.name == ep[1].0).cloned()
                    };
                    if !local {
                        let (f, _) = eff_sub.iter().find(|(f, _)| f.name == ep[0].0).unwrap();
                        if let Some(n) = f.card {
                            ep[0].1 = Some(rng.usize_below(n));
                        }
                    }
                    let last = ep.len() - 1;
                    if let Some(n) = gate_decl.and_then(|g| g.card) {
                        ep[last].1 = Some(rng.usize_below(n));
                    }
                };
                if pa.len() < 3 {
                    pin(&mut pa, ea.local, rng);
                }
                if pb.len() < 3 {
                    pin(&mut pb, eb.local, rng);
                }
            }
            used.insert(ea.key.clone());
            used.insert(eb.key.clone());
            conns.push(Conn { a: pa, b: pb, link: if !links.is_empty() && rng.chance(1, 2) { Some(rng.pick(&links).0.clone()) } else { None } });
        }
        for k in &used {
            if k.contains('/') {
                info.child_used[i].insert(k.clone());
            } else {
                info.local_used[i].insert(k.clone());
            }
        }
        // a gate of a child that the child's own type already connects as a local gate AND that we connect from
        // outside has two peers: fine. A gate we connect twice would have three: prevented by `used`.
        info.gates[i] = eff_gates;
        eff_subs[i] = eff_sub;
        gates.retain(|_| true);
        mods[i] = Some(ModDecl {
            name,
            generics: generics.iter().map(|(b, j)| (b.clone(), format!("M{j}"))).collect(),
            inherit: inherit.map(|p| format!("M{p}")),
            gates,
            subs,
            conns,
        });
    }
    Doc { entry: "M0".into(), modules: mods.into_iter().map(Option::unwrap).collect(), links }
}

// -------------------------------------------------------------------------------------------------
// mutations
// -------------------------------------------------------------------------------------------------

#[derive(Debug, Clone, Copy, PartialEq, Eq, Serialize, Deserialize)]
pub enum Mutation {
    DanglingType,
    DanglingInherit,
    UnknownGateInConnection,
    UnknownSubmoduleInConnection,
    UnknownLink,
    IndexOutOfBounds,
    IndexZeroIntoAtom,
    ZeroGateCluster,
    ZeroSubmoduleCluster,
    UnequalPeers,
    InheritCycle,
    SubmoduleCycle,
    UnknownEntry,
    MalformedClauseNoClose,
    MalformedClauseEmptyArgs,
    MalformedClauseNoBound,
    GenericWithoutArgs,
    WrongArity,
    NonConformingArg,
    /// the argument has a submodule of the same name and the same generic type symbol as the bound's, but instantiated
    /// with a structurally different type (Box(Y) where the bound has Box(X))
    NestedInstantiationDiffers,
    GenericModuleAsArg,
    BindingAsArg,
    BindingWithArgs,
    TextDeleteLine,
    TextGarbage,
}

pub const MUTATIONS: &[Mutation] = &[
    Mutation::DanglingType,
    Mutation::DanglingInherit,
    Mutation::UnknownGateInConnection,
    Mutation::UnknownSubmoduleInConnection,
    Mutation::UnknownLink,
    Mutation::IndexOutOfBounds,
    Mutation::IndexZeroIntoAtom,
    Mutation::ZeroGateCluster,
    Mutation::ZeroSubmoduleCluster,
    Mutation::UnequalPeers,
    Mutation::InheritCycle,
    Mutation::SubmoduleCycle,
    Mutation::UnknownEntry,
    Mutation::MalformedClauseNoClose,
    Mutation::MalformedClauseEmptyArgs,
    Mutation::MalformedClauseNoBound,
    Mutation::GenericWithoutArgs,
    Mutation::WrongArity,
    Mutation::NonConformingArg,
    Mutation::NestedInstantiationDiffers,
    Mutation::GenericModuleAsArg,
    Mutation::BindingAsArg,
    Mutation::BindingWithArgs,
    Mutation::TextDeleteLine,
    Mutation::TextGarbage,
];

/// Returns the mutated text and whether the mutant must be rejected (`true`) or may also be accepted.
pub fn mutate(doc: &Doc, m: Mutation, rng: &mut Rng) -> Option<(String, bool)> {
    let mut d = doc.clone();
    let n = d.modules.len();
    let reachable = |d: &Doc, idx: usize| -> bool {
        // only mutations inside modules the entry depends on are guaranteed to matter
        let mut seen = BTreeSet::new();
        let mut stack = vec![d.entry.clone()];
        while let Some(x) = stack.pop() {
            if !seen.insert(x.clone()) {
                continue;
            }
            if let Some(md) = d.modules.iter().find(|q| q.name == x) {
                stack.extend(md.inherit.iter().cloned());
                for s in &md.subs {
                    stack.push(s.typ.clone());
                    stack.extend(s.args.iter().cloned());
                }
                stack.extend(md.generics.iter().map(|g| g.1.clone()));
            }
        }
        seen.contains(&d.modules[idx].name)
    };
    let with_conn: Vec<usize> = (0..n).filter(|i| !d.modules[*i].conns.is_empty()).collect();
    let with_sub: Vec<usize> = (0..n).filter(|i| !d.modules[*i].subs.is_empty()).collect();
    let with_gate: Vec<usize> = (0..n).filter(|i| !d.modules[*i].gates.is_empty()).collect();
    let generic: Vec<usize> = (0..n).filter(|i| !d.modules[*i].generics.is_empty()).collect();
    let instantiations: Vec<(usize, usize)> = (0..n).flat_map(|i| (0..d.modules[i].subs.len()).map(move |k| (i, k))).filter(|(i, k)| !d.modules[*i].subs[*k].args.is_empty()).collect();
    match m {
        Mutation::DanglingType => {
            let i = *with_sub.get(rng.usize_below(with_sub.len().max(1)))?;
            let k = rng.usize_below(d.modules[i].subs.len());
            d.modules[i].subs[k].typ = "Nowhere".into();
            d.modules[i].subs[k].args.clear();
            Some((render(&d), true))
        }
        Mutation::DanglingInherit => {
            let i = rng.usize_below(n);
            d.modules[i].inherit = Some("Nowhere".into());
            Some((render(&d), true))
        }
        Mutation::UnknownGateInConnection => {
            let i = *with_conn.get(rng.usize_below(with_conn.len().max(1)))?;
            let k = rng.usize_below(d.modules[i].conns.len());
            let last = d.modules[i].conns[k].a.len() - 1;
            d.modules[i].conns[k].a[last].0 = "nogate".into();
            Some((render(&d), reachable(&d, i)))
        }
        Mutation::UnknownSubmoduleInConnection => {
            let i = *with_conn.get(rng.usize_below(with_conn.len().max(1)))?;
            let k = rng.usize_below(d.modules[i].conns.len());
            d.modules[i].conns[k].b.insert(0, ("nosub".into(), None));
            Some((render(&d), reachable(&d, i)))
        }
        Mutation::UnknownLink => {
            let i = *with_conn.get(rng.usize_below(with_conn.len().max(1)))?;
            let k = rng.usize_below(d.modules[i].conns.len());
            d.modules[i].conns[k].link = Some("NoLink".into());
            Some((render(&d), reachable(&d, i)))
        }
        Mutation::IndexOutOfBounds => {
            let i = *with_conn.get(rng.usize_below(with_conn.len().max(1)))?;
            let k = rng.usize_below(d.modules[i].conns.len());
            let last = d.modules[i].conns[k].a.len() - 1;
            // an index of 7 is beyond every generated cluster (and an index into an atom is rejected as well)
            d.modules[i].conns[k].a[last].1 = Some(7);
            Some((render(&d), reachable(&d, i)))
        }
        Mutation::IndexZeroIntoAtom => {
            // `x[0]` where x is declared without a cluster size: an index into a non-cluster is out of bounds, also for 0
            let i = rng.usize_below(n);
            if d.modules[i].generics.is_empty() && rng.chance(1, 2) {
                d.modules.push(ModDecl { name: "Plug".into(), generics: vec![], inherit: None, gates: vec![Field { name: "p".into(), card: None }], subs: vec![], conns: vec![] });
                d.modules[i].subs.push(Sub { field: Field { name: "solo".into(), card: None }, typ: "Plug".into(), args: vec![] });
                d.modules[i].gates.push(Field { name: "sock".into(), card: None });
                d.modules[i].conns.push(Conn { a: vec![("solo".into(), Some(0)), ("p".into(), None)], b: vec![("sock".into(), None)], link: None });
            } else {
                d.modules[i].gates.push(Field { name: "lone".into(), card: None });
                d.modules[i].gates.push(Field { name: "lone2".into(), card: None });
                d.modules[i].conns.push(Conn { a: vec![("lone".into(), Some(0))], b: vec![("lone2".into(), None)], link: None });
            }
            Some((render(&d), reachable(&d, i)))
        }
        Mutation::ZeroGateCluster => {
            let i = *with_gate.get(rng.usize_below(with_gate.len().max(1)))?;
            let k = rng.usize_below(d.modules[i].gates.len());
            // the gate may be used in connections: the zero-sized cluster is reported first
            d.modules[i].gates[k].card = Some(0);
            Some((render(&d), reachable(&d, i)))
        }
        Mutation::ZeroSubmoduleCluster => {
            let i = *with_sub.get(rng.usize_below(with_sub.len().max(1)))?;
            let k = rng.usize_below(d.modules[i].subs.len());
            d.modules[i].subs[k].field.card = Some(0);
            Some((render(&d), reachable(&d, i)))
        }
        Mutation::UnequalPeers => {
            // add a local gate cluster of 5 and connect it to an existing single instance
            let i = *with_conn.get(rng.usize_below(with_conn.len().max(1)))?;
            d.modules[i].gates.push(Field { name: "wide".into(), card: Some(5) });
            d.modules[i].gates.push(Field { name: "narrow".into(), card: Some(2) });
            d.modules[i].conns.push(Conn { a: vec![("wide".into(), None)], b: vec![("narrow".into(), None)], link: None });
            Some((render(&d), reachable(&d, i)))
        }
        Mutation::InheritCycle => {
            let i = rng.usize_below(n);
            let name = d.modules[i].name.clone();
            d.modules[i].inherit = Some(name);
            Some((render(&d), true))
        }
        Mutation::SubmoduleCycle => {
            let i = rng.usize_below(n);
            let name = d.modules[i].name.clone();
            d.modules[i].subs.push(Sub { field: Field { name: "again".into(), card: None }, typ: name, args: vec![] });
            Some((render(&d), true))
        }
        Mutation::UnknownEntry => {
            d.entry = "Nowhere".into();
            Some((render(&d), true))
        }
        Mutation::MalformedClauseNoClose => {
            let plain = (1..n).find(|i| d.modules[*i].generics.is_empty())?;
            let name = d.modules[plain].name.clone();
            let text = render(&d);
            let key = format!("  \"{name}\":");
            if !text.contains(&key) {
                return None;
            }
            Some((text.replacen(&key, &format!("  \"{name}(T <- M0\":"), 1), true))
        }
        Mutation::MalformedClauseEmptyArgs => {
            let i = *with_sub.get(rng.usize_below(with_sub.len().max(1)))?;
            let k = rng.usize_below(d.modules[i].subs.len());
            let t = format!("{}()", d.modules[i].subs[k].typ);
            d.modules[i].subs[k].typ = t;
            d.modules[i].subs[k].args.clear();
            Some((render(&d), true))
        }
        Mutation::MalformedClauseNoBound => {
            let plain = (1..n).find(|i| d.modules[*i].generics.is_empty())?;
            let name = d.modules[plain].name.clone();
            let text = render(&d);
            let key = format!("  \"{name}\":");
            if !text.contains(&key) {
                return None;
            }
            Some((text.replacen(&key, &format!("  \"{name}(T)\":"), 1), true))
        }
        Mutation::GenericWithoutArgs => {
            let (i, k) = *instantiations.get(rng.usize_below(instantiations.len().max(1)))?;
            d.modules[i].subs[k].args.clear();
            Some((render(&d), reachable(&d, i)))
        }
        Mutation::WrongArity => {
            let (i, k) = *instantiations.get(rng.usize_below(instantiations.len().max(1)))?;
            let extra = d.modules[i].subs[k].args[0].clone();
            d.modules[i].subs[k].args.push(extra);
            Some((render(&d), reachable(&d, i)))
        }
        Mutation::NonConformingArg => {
            // an argument type with nothing in it does not conform to a bound that has gates
            let (i, k) = *instantiations.get(rng.usize_below(instantiations.len().max(1)))?;
            let g = d.modules.iter().find(|x| x.name == d.modules[i].subs[k].typ)?;
            let bound = d.modules.iter().find(|x| x.name == g.generics[0].1)?;
            // conformance is structural: the bound must have something (own or inherited) that "Hollow" lacks
            let mut has_content = false;
            let mut cur = Some(bound);
            let mut hops = 0;
            while let Some(b) = cur {
                has_content |= !b.gates.is_empty() || !b.subs.is_empty();
                hops += 1;
                cur = if hops < 32 { b.inherit.as_ref().and_then(|i| d.modules.iter().find(|x| x.name == *i)) } else { None };
            }
            if !has_content {
                return None;
            }
            d.modules.push(ModDecl { name: "Hollow".into(), generics: vec![], inherit: None, gates: vec![], subs: vec![], conns: vec![] });
            d.modules[i].subs[k].args = vec!["Hollow".into()];
            Some((render(&d), reachable(&d, i)))
        }
        Mutation::NestedInstantiationDiffers => {
            let plain = |name: &str, gates: Vec<Field>, subs: Vec<Sub>| ModDecl { name: name.into(), generics: vec![], inherit: None, gates, subs, conns: vec![] };
            let atom = |n: &str| Field { name: n.into(), card: None };
            let conforming = rng.chance(1, 4);
            d.modules.push(plain("NX", vec![atom("p")], vec![]));
            d.modules.push(plain("NY", vec![], vec![]));
            d.modules.push(ModDecl {
                name: "NBox".into(),
                generics: vec![("C".into(), "NY".into())],
                inherit: None,
                gates: vec![],
                subs: vec![Sub { field: atom("c"), typ: "C".into(), args: vec![] }],
                conns: vec![],
            });
            d.modules.push(plain("NIface", vec![], vec![Sub { field: atom("s"), typ: "NBox".into(), args: vec!["NX".into()] }]));
            // the control (a quarter of the cases) instantiates with the same type and must be accepted
            d.modules.push(plain("NImpl", vec![], vec![Sub { field: atom("s"), typ: "NBox".into(), args: vec![if conforming { "NX".into() } else { "NY".into() }] }]));
            d.modules.push(ModDecl {
                name: "NHost".into(),
                generics: vec![("T".into(), "NIface".into())],
                inherit: None,
                gates: vec![],
                subs: vec![Sub { field: atom("t"), typ: "T".into(), args: vec![] }],
                conns: vec![],
            });
            let e = d.modules.iter().position(|x| x.name == d.entry)?;
            d.modules[e].subs.push(Sub { field: atom("nh"), typ: "NHost".into(), args: vec!["NImpl".into()] });
            Some((render(&d), !conforming))
        }
        Mutation::GenericModuleAsArg => {
            let (i, k) = *instantiations.get(rng.usize_below(instantiations.len().max(1)))?;
            let g = generic.first().copied()?;
            d.modules[i].subs[k].args = vec![d.modules[g].name.clone()];
            Some((render(&d), reachable(&d, i)))
        }
        Mutation::BindingAsArg => {
            // inside a generic module: instantiate another generic module with the own binding
            let g = *generic.get(rng.usize_below(generic.len().max(1)))?;
            let other = generic.iter().copied().find(|o| *o != g).unwrap_or(g);
            let typ = d.modules[other].name.clone();
            let binding = d.modules[g].generics[0].0.clone();
            d.modules[g].subs.push(Sub { field: Field { name: "viaBinding".into(), card: None }, typ, args: vec![binding] });
            Some((render(&d), reachable(&d, g)))
        }
        Mutation::BindingWithArgs => {
            let g = *generic.get(rng.usize_below(generic.len().max(1)))?;
            let binding = d.modules[g].generics[0].0.clone();
            let bound = d.modules[g].generics[0].1.clone();
            d.modules[g].subs.push(Sub { field: Field { name: "bindingWithArgs".into(), card: None }, typ: binding, args: vec![bound] });
            Some((render(&d), reachable(&d, g)))
        }
        Mutation::TextDeleteLine => {
            let text = render(&d);
            let lines: Vec<&str> = text.lines().collect();
            let skip = rng.usize_below(lines.len());
            Some((lines.iter().enumerate().filter(|(i, _)| *i != skip).map(|(_, l)| *l).collect::<Vec<_>>().join("\n") + "\n", false))
        }
        Mutation::TextGarbage => {
            let mut text = render(&d);
            let pos = rng.usize_below(text.len());
            let pos = (0..=pos).rev().find(|p| text.is_char_boundary(*p)).unwrap_or(0);
            text.insert_str(pos, *rng.pick(&["(", ")", "[", "]", ":", "- ", "\n", "<-", "/", "[999999999999999999999]", "\"", "{", "é"]));
            Some((text, false))
        }
    }
}

// -------------------------------------------------------------------------------------------------
// checks
// -------------------------------------------------------------------------------------------------

pub type Finding = (&'static str, String);

pub fn check_valid(doc: &Doc) -> Vec<Finding> {
    let text = render(doc);
    let want = elaborate(doc);
    match build(&text) {
        Built::Panicked(p) => vec![("panic", format!("a valid description crashed the pipeline: {p}"))],
        Built::Error { stage, kind, display } => vec![("valid-rejected", format!("a valid, realisable description was rejected at {stage}: {kind}: {display}"))],
        Built::Ok(got) => {
            let mut f = Vec::new();
            if got.modules != want.modules {
                let missing: Vec<_> = want.modules.iter().filter(|(k, v)| got.modules.get(*k) != Some(v)).take(3).collect();
                let extra: Vec<_> = got.modules.iter().filter(|(k, v)| want.modules.get(*k) != Some(v)).take(3).collect();
                f.push(("modules-differ", format!("modules (path -> software symbol): missing / different {missing:?}, unexpected {extra:?}")));
            }
            if got.gates != want.gates {
                let missing: Vec<_> = want.gates.iter().filter(|(k, v)| got.gates.get(*k) != Some(v)).take(3).collect();
                let extra: Vec<_> = got.gates.iter().filter(|(k, v)| want.gates.get(*k) != Some(v)).take(3).collect();
                f.push(("gates-differ", format!("gate clusters (module, gate -> size): missing / different {missing:?}, unexpected {extra:?}")));
            }
            if got.conns != want.conns {
                let missing: Vec<_> = want.conns.difference(&got.conns).take(2).collect();
                let extra: Vec<_> = got.conns.difference(&want.conns).take(2).collect();
                f.push(("connections-differ", format!("connections: missing {missing:?}, unexpected {extra:?}")));
            }
            f
        }
    }
}

pub fn check_mutant(text: &str, must_reject: bool, m: Mutation) -> Vec<Finding> {
    match build(text) {
        Built::Panicked(p) => vec![("panic", format!("mutation {m:?}: the pipeline crashed instead of returning an error: {p}"))],
        Built::Error { kind, display, .. } => {
            let mut f = Vec::new();
            if display.trim().is_empty() || kind == format!("{:?}", ErrorKind::Other) {
                f.push(("undescriptive-error", format!("mutation {m:?}: the error says nothing: kind {kind}, message '{display}'")));
            }
            f
        }
        Built::Ok(_) => {
            if must_reject {
                vec![("invalid-accepted", format!("mutation {m:?}: the invalid description was elaborated and built without an error"))]
            } else {
                Vec::new()
            }
        }
    }
}

/// Display / FromStr round trips of the textual clauses
pub fn round_trips(rng: &mut Rng) -> Vec<Finding> {
    let mut f = Vec::new();
    let name = |rng: &mut Rng| format!("N{}", rng.below(50));
    for _ in 0..20 {
        let fd = FieldDef { ident: name(rng), kardinality: if rng.chance(1, 2) { Kardinality::Atom } else { Kardinality::Cluster(rng.usize_below(9)) } };
        match FieldDef::from_str(&fd.to_string()) {
            Ok(back) if back == fd => {}
            other => f.push(("round-trip", format!("FieldDef {fd:?} -> '{fd}' -> {other:?}"))),
        }
        let tc: TypClause<String> = TypClause { ident: name(rng), args: (0..rng.usize_below(3)).map(|_| name(rng)).collect() };
        match TypClause::<String>::from_str(&tc.to_string()) {
            Ok(back) if back == tc => {}
            other => f.push(("round-trip", format!("TypClause {tc:?} -> '{tc}' -> {other:?}"))),
        }
        let ep = ConnectionEndpointDef { accessors: (0..1 + rng.usize_below(3)).map(|_| FieldDef { ident: name(rng), kardinality: if rng.chance(1, 2) { Kardinality::Atom } else { Kardinality::Cluster(rng.usize_below(5)) } }).collect() };
        match ConnectionEndpointDef::from_str(&ep.to_string()) {
            Ok(back) if back == ep => {}
            other => f.push(("round-trip", format!("ConnectionEndpointDef {ep:?} -> '{ep}' -> {other:?}"))),
        }
    }
    f
}

fn doc_hash(d: &Doc) -> u64 {
    let mut h = Hasher64::new();
    h.str(&render(d));
    h.finish()
}

pub fn cmd(args: &Args) -> Report {
    let mut rep = Report::new("C18");
    let mut rng = Rng::new(args.stream_seed("c18"));
    let cases = args.cases(480_000, 6_400_000);
    let mut stop = false;
    for i in 0..cases {
        let doc = gen_doc(&mut rng);
        // every second document goes through the plain entry point, the others rotate through the alternatives
        let entry = if i % 2 == 0 { 0 } else { 1 + ((i / 2) % 4) as u8 };
        ENTRY.with(|e| e.set(entry));
        rep.count(&format!("documents_through_{}", ENTRY_NAMES[if cfg!(miri) { entry % 3 } else { entry } as usize].replace("::", "_").replace(['(', ')'], "_")), 1);
        vcommon::mark_case(&format!("c18:{}:{}:{}", args.seed, args.shard, i));
        let findings = check_valid(&doc);
        rep.eval();
        let want = elaborate(&doc);
        rep.count("valid_documents_built", 1);
        rep.count("modules_compared", want.modules.len() as u64);
        rep.count("gate_clusters_compared", want.gates.len() as u64);
        rep.count("connections_compared", want.conns.len() as u64);
        if doc.modules.iter().any(|m| !m.generics.is_empty()) {
            rep.count("documents_with_generics", 1);
        }
        if doc.modules.iter().any(|m| m.subs.iter().any(|s| !s.args.is_empty())) {
            rep.count("documents_with_type_arguments", 1);
        }
        if doc.modules.iter().any(|m| m.inherit.is_some()) {
            rep.count("documents_with_inheritance", 1);
        }
        if want.conns.iter().any(|c| c.2.is_some()) {
            rep.count("documents_with_links", 1);
        }
        if doc.modules.iter().any(|m| m.conns.iter().any(|c| c.a.len() >= 3 || c.b.len() >= 3)) {
            rep.count("documents_with_two_level_endpoints", 1);
        }
        if findings.is_empty() && want.modules.len() >= 3 && !want.conns.is_empty() {
            rep.nontrivial(doc_hash(&doc));
            if rep.wants_sample() && want.modules.len() <= 5 {
                rep.sample(json!({"document": render(&doc), "modules": want.modules, "connections": want.conns.len()}));
            }
        }
        let valid_ok = findings.is_empty();
        for (kind, detail) in findings.into_iter().take(2) {
            let case = json!({"driver": "desmon", "sub": "c18", "document": render(&doc), "doc": serde_json::to_value(&doc).unwrap(), "entry": entry});
            if !rep.violation(&format!("C18/{kind}"), &detail, case) {
                stop = true;
            }
        }
        // single-point mutations of the valid document
        if valid_ok {
            for _ in 0..3 {
                let m = *rng.pick(MUTATIONS);
                let Some((text, must_reject)) = mutate(&doc, m, &mut rng) else { continue };
                let f = check_mutant(&text, must_reject, m);
                rep.count("mutants_executed", 1);
                rep.count(&format!("mutants_{m:?}"), 1);
                if must_reject {
                    rep.count("mutants_that_must_be_rejected", 1);
                }
                for (kind, detail) in f.into_iter().take(1) {
                    let case = json!({"driver": "desmon", "sub": "c18", "document": text, "mutation": format!("{m:?}"), "must_reject": must_reject, "entry": entry});
                    if !rep.violation(&format!("C18/{kind}"), &detail, case) {
                        stop = true;
                    }
                }
            }
        }
        if i % 200 == 0 {
            for (kind, detail) in round_trips(&mut rng).into_iter().take(1) {
                rep.violation(&format!("C18/{kind}"), &detail, json!({"driver": "desmon", "sub": "c18", "round_trip": true}));
            }
            rep.count("round_trip_batches", 1);
        }
        if stop {
            break;
        }
    }
    rep
}

pub fn replay(v: &Value) -> i32 {
    if v.get("round_trip").is_some() {
        let mut rng = Rng::new(3);
        let f = round_trips(&mut rng);
        for (k, d) in &f {
            println!("VIOLATION reproduced: C18/{k}: {d}");
        }
        return i32::from(!f.is_empty());
    }
    let text = v.get("document").and_then(Value::as_str).expect("document").to_string();
    let entry = v.get("entry").and_then(Value::as_u64).unwrap_or(0) as u8;
    ENTRY.with(|e| e.set(entry));
    println!("{text}\nentry point: {}", ENTRY_NAMES[entry as usize % 5]);
    let f = if let Some(doc) = v.get("doc") {
        let doc: Doc = serde_json::from_value(doc.clone()).expect("doc");
        check_valid(&doc)
    } else {
        let must = v.get("must_reject").and_then(Value::as_bool).unwrap_or(false);
        println!("result: {:?}", build(&text));
        check_mutant(&text, must, Mutation::TextGarbage)
    };
    if f.is_empty() {
        println!("no violation");
        0
    } else {
        for (k, d) in f {
            println!("VIOLATION reproduced: C18/{k}: {d}");
        }
        1
    }
}
