fn main() {}
