//! desmon — runtime monitors for the simulator (`des`), one sub-command per property / level.

mod c03net;
mod c04;
mod c05;
mod c06;
mod c07;
mod c08;
mod c09;
mod c12;
mod c13;
mod c14;
mod c16;
mod c17;
mod c18;
mod c19;
mod c20;
mod evprog;
mod rtprops;

use serde_json::Value;
use vcommon::Args;

fn main() {
    let args = Args::parse();
    vcommon::quiet_panics();
    if args.cmd == "noop" {
        return;
    }
    if args.cmd == "c04child" {
        c04::child_main(&args);
        return;
    }
    if args.cmd == "replay" {
        let path = args.replay.clone().expect("replay needs --replay <file>");
        let text = std::fs::read_to_string(&path).expect("cannot read replay file");
        let v: Value = serde_json::from_str(&text).expect("replay file is not JSON");
        let case = v.get("case").unwrap_or(&v);
        let sub = case.get("sub").and_then(Value::as_str).unwrap_or("").to_string();
        let rc = match sub.as_str() {
            "c02" | "c03rt" | "c10" | "c11" => rtprops::replay(case),
            "c03net" => c03net::replay(case),
            "c04" => c04::replay(case),
            "c05" => c05::replay(case),
            "c06" => c06::replay(case),
            "c07" => c07::replay(case),
            "c08" => c08::replay(case),
            "c09" => c09::replay(case),
            "c12" => c12::replay(case),
            "c13" => c13::replay(case),
            "c14" => c14::replay(case),
            "c16" => c16::replay(case),
            "c17" => c17::replay(case),
            "c18" => c18::replay(case),
            "c19" => c19::replay(case),
            "c20" => c20::replay(case),
            other => {
                eprintln!("no replay for sub-command {other}");
                2
            }
        };
        std::process::exit(rc);
    }
    let rep = match args.cmd.as_str() {
        "c02" => rtprops::cmd_c02(&args),
        "c03rt" => rtprops::cmd_c03rt(&args),
        "c10" => rtprops::cmd_c10(&args),
        "c11" => rtprops::cmd_c11(&args),
        "c03net" => c03net::cmd(&args),
        "c04" => c04::cmd(&args),
        "c05" => c05::cmd(&args),
        "c06" => c06::cmd(&args),
        "c07" => c07::cmd(&args),
        "c08" => c08::cmd(&args),
        "c09" => c09::cmd(&args),
        "c12" => c12::cmd(&args),
        "c13" => c13::cmd(&args),
        "c14" => c14::cmd(&args),
        "c16" => c16::cmd(&args),
        "c17" => c17::cmd(&args),
        "c18" => c18::cmd(&args),
        "c19" => c19::cmd(&args),
        "c20" => c20::cmd(&args),
        other => {
            eprintln!("unknown sub-command {other}");
            std::process::exit(2);
        }
    };
    rep.finish();
}
