//! C06 — all runnable async work finishes within the simulated instant that enabled it.
//!
//! Scenarios make many tasks runnable within one event (spawn bursts, broadcast wake-ups, wake
//! chains through oneshot / mpsc / semaphore / join handles, repeated yields, one task draining a
//! long channel). Every task logs `SimTime::now()` right after each await; the instant at which
//! the awaited condition became true is known by construction. Pure virtual time.

use des::prelude::*;
use des::time::sleep;
use serde::{Deserialize, Serialize};
use serde_json::{json, Value};
use std::cell::RefCell;
use std::sync::Arc;
use tokio::sync::{mpsc, oneshot, Notify, Semaphore};
use vcommon::{Args, Hasher64, Report, Rng};

const TRIG: u16 = 31;
const SENTINEL: u16 = 32;
const CAPT: u16 = 33;
const ANSWER: u16 = 34;
const SEC: u64 = 1_000_000_000;

#[derive(Debug, Clone, Copy, Serialize, Deserialize, PartialEq)]
pub enum ChainKind {
    Oneshot,
    Mpsc,
    Semaphore,
    Join,
}

#[derive(Debug, Clone, Serialize, Deserialize, PartialEq)]
pub enum Scenario {
    /// spawn `n` tasks inside the event; each yields `yields` times, then optionally sleeps `sleep_ns`
    Burst { n: usize, yields: usize, sleep_ns: u64 },
    /// `n` tasks wait on a Notify from the start; the event calls notify_waiters
    Notify { n: usize },
    /// task i waits for task i-1 and then wakes task i+1; the event starts the chain
    Chain { depth: usize, kind: ChainKind },
    /// one task receives `m` items that the event pushes into an unbounded channel
    Drain { m: usize },
    /// `n` tasks wait on a Notify; the trigger message is consumed by a processing element of the
    /// module, which notifies them (the module's handler never runs in that event)
    Captured { n: usize },
    /// `n` tasks each await `timeout(timeout_ns, oneshot)`; a sibling task spawned in the same event answers, so the
    /// timeout's timer is armed and disarmed within one instant; the task then sleeps `sleep_ns`
    Answered { n: usize, timeout_ns: u64, sleep_ns: u64 },
    /// idle-timer idiom: `n` tasks each hold a pinned `sleep(d)` and re-arm it (`reset(now + d)`) for every item of a
    /// channel; a sibling task sends `rearms` items in the same event, after the sleep has been registered - the
    /// sleep is reset several times to the deadline it is already registered for
    Rearm { n: usize, d_ns: u64, rearms: usize },
    /// `n` tasks each hold two sleeps with the same deadline, both polled once; the one registered first is dropped
    /// (a guard timer that is no longer needed), the other is awaited
    TwinTimer { n: usize, d_ns: u64 },
    /// `n` tasks await `timeout(timeout_ns, oneshot)`; a later message of the module (after `answer_ns < timeout_ns`)
    /// answers them, so the timeout's timer is cancelled in a later event, before its deadline; each task then sleeps
    /// `sleep_ns`, past the cancelled deadline
    LateAnswer { n: usize, timeout_ns: u64, answer_ns: u64, sleep_ns: u64 },
    /// `n <= 9` tasks sleep `base_ns + k * 0.1 ms`: pending timers of one module whose deadlines differ by less than
    /// a millisecond (the tasks are spawned in descending or ascending order of their deadlines)
    Stagger { n: usize, base_ns: u64, descending: bool },
    /// `n` tasks each create `sleep(Duration::MAX)` (a disarmed timer), poll it once and arm it with reset to the
    /// common deadline `d_ns` ahead; odd tasks give up half way (their timer is dropped), even tasks await it
    FarArmed { n: usize, d_ns: u64 },
}

#[derive(Debug, Clone, Serialize, Deserialize, PartialEq)]
pub struct Trigger {
    /// trigger instant; 0 = inside at_sim_start, otherwise a message handled at that time
    pub time_ns: u64,
    pub scenario: Scenario,
    /// use `tokio::task::spawn_local` instead of `tokio::spawn`
    pub local: bool,
    /// the handler that fires the trigger also requests the shutdown of its module: what it made runnable is still
    /// polled within this event (only generated for a module's single trigger whose work completes in the instant)
    #[serde(default)]
    pub then_shutdown: bool,
    /// wake chains: the tasks alternate between tokio::spawn and spawn_local (a runtime task wakes a local task
    /// and vice versa)
    #[serde(default)]
    pub mixed: bool,
}

#[derive(Debug, Clone, Serialize, Deserialize, PartialEq)]
pub struct Case {
    /// triggers per module
    pub modules: Vec<Vec<Trigger>>,
}

impl Trigger {
    /// number of task polls this trigger needs within one instant
    pub fn polls(&self) -> usize {
        match &self.scenario {
            Scenario::Burst { n, yields, .. } => n * (yields + 1),
            Scenario::Notify { n } => *n,
            Scenario::Chain { depth, .. } => *depth,
            Scenario::Drain { m } => 1 + m / 128,
            Scenario::Captured { n } => *n,
            Scenario::Answered { n, .. } => 3 * n,
            Scenario::Rearm { n, .. } => 3 * n,
            Scenario::TwinTimer { n, .. } => 2 * n,
            Scenario::LateAnswer { n, .. } => 2 * n,
            Scenario::Stagger { n, .. } => 2 * n,
            Scenario::FarArmed { n, .. } => 2 * n,
        }
    }
}

impl Case {
    /// the shape of the known finding: spawn_local work that needs more polls within one instant
    /// than the LocalSet hands out per scheduler turn (61)
    pub fn local_over_budget(&self) -> bool {
        self.modules.iter().flatten().any(|t| t.local && t.polls() > 61)
    }
}

#[derive(Debug, Clone, Copy, Serialize, Deserialize)]
pub struct LogRec {
    pub module: usize,
    pub trigger: usize,
    pub task: usize,
    pub now: u64,
    pub expected: u64,
}

thread_local! {
    /// (module, trigger) -> what the capturing element notifies
    static CAPTURE: RefCell<Vec<(usize, usize, Arc<Notify>)>> = const { RefCell::new(Vec::new()) };
    static LOG: RefCell<Vec<LogRec>> = const { RefCell::new(Vec::new()) };
    static FINISHED: RefCell<u64> = const { RefCell::new(0) };
}

fn now_ns() -> u64 {
    SimTime::now().as_nanos() as u64
}

fn log(module: usize, trigger: usize, task: usize, expected: u64) {
    LOG.with(|l| l.borrow_mut().push(LogRec { module, trigger, task, now: now_ns(), expected }));
}

fn done() {
    FINISHED.with(|f| *f.borrow_mut() += 1);
}

fn spawn_any<F>(local: bool, fut: F) -> tokio::task::JoinHandle<()>
where
    F: std::future::Future<Output = ()> + Send + 'static,
{
    if local {
        tokio::task::spawn_local(fut)
    } else {
        tokio::spawn(fut)
    }
}

/// consumes CAPT messages and wakes the tasks registered for that trigger
struct Capture {
    module: usize,
}

impl des::net::processing::ProcessingElement for Capture {
    fn incoming(&mut self, msg: Message) -> Option<Message> {
        if msg.header().kind != CAPT {
            return Some(msg);
        }
        let ti = msg.header().id as usize;
        let n = CAPTURE.with(|c| c.borrow().iter().find(|(m, t, _)| *m == self.module && *t == ti).map(|(_, _, n)| n.clone()));
        if let Some(n) = n {
            n.notify_waiters();
        }
        None
    }
}

enum Armed {
    None,
    Notify(Arc<Notify>),
    ChainOneshot(Option<oneshot::Sender<()>>),
    ChainMpsc(mpsc::UnboundedSender<()>),
    ChainSem(Arc<Semaphore>),
    Drain(mpsc::UnboundedSender<u64>, usize),
    Answer(Vec<oneshot::Sender<()>>),
}

struct Stormy {
    idx: usize,
    triggers: Vec<Trigger>,
    armed: Vec<Armed>,
    spawned: u64,
}

impl Stormy {
    /// tasks that must exist before their trigger fires
    fn prepare(&mut self, ti: usize) {
        let (m, t) = (self.idx, self.triggers[ti].clone());
        let at = t.time_ns;
        let (local, mixed) = (t.local, t.mixed);
        let local_of = move |k: usize| if mixed { k % 2 == 1 } else { local };
        let armed = match &t.scenario {
            Scenario::Burst { .. } | Scenario::Answered { .. } | Scenario::Rearm { .. } | Scenario::TwinTimer { .. } | Scenario::LateAnswer { .. } | Scenario::Stagger { .. } | Scenario::FarArmed { .. } => Armed::None,
            Scenario::Notify { n } => {
                let notify = Arc::new(Notify::new());
                for k in 0..*n {
                    let nf = notify.clone();
                    let h = spawn_any(t.local, async move {
                        nf.notified().await;
                        log(m, ti, k, at);
                        done();
                    });
                    current().join(h);
                    self.spawned += 1;
                }
                Armed::Notify(notify)
            }
            Scenario::Captured { n } => {
                let notify = Arc::new(Notify::new());
                for k in 0..*n {
                    let nf = notify.clone();
                    let h = spawn_any(t.local, async move {
                        nf.notified().await;
                        log(m, ti, k, at);
                        done();
                    });
                    current().join(h);
                    self.spawned += 1;
                }
                CAPTURE.with(|c| c.borrow_mut().push((m, ti, notify)));
                Armed::None
            }
            Scenario::Chain { depth, kind } => match kind {
                ChainKind::Oneshot => {
                    let (first_tx, mut rx) = oneshot::channel::<()>();
                    for k in 0..*depth {
                        let (tx_next, rx_next) = oneshot::channel::<()>();
                        let my_rx = std::mem::replace(&mut rx, rx_next);
                        let h = spawn_any(local_of(k), async move {
                            let _ = my_rx.await;
                            log(m, ti, k, at);
                            let _ = tx_next.send(());
                            done();
                        });
                        current().join(h);
                        self.spawned += 1;
                    }
                    Armed::ChainOneshot(Some(first_tx))
                }
                ChainKind::Mpsc => {
                    let (first_tx, mut rx) = mpsc::unbounded_channel::<()>();
                    for k in 0..*depth {
                        let (tx_next, rx_next) = mpsc::unbounded_channel::<()>();
                        let mut my_rx = std::mem::replace(&mut rx, rx_next);
                        let h = spawn_any(local_of(k), async move {
                            let _ = my_rx.recv().await;
                            log(m, ti, k, at);
                            let _ = tx_next.send(());
                            done();
                        });
                        current().join(h);
                        self.spawned += 1;
                    }
                    Armed::ChainMpsc(first_tx)
                }
                ChainKind::Semaphore => {
                    // task k needs k+1 permits... simpler: one semaphore per link
                    let first = Arc::new(Semaphore::new(0));
                    let mut cur = first.clone();
                    for k in 0..*depth {
                        let next = Arc::new(Semaphore::new(0));
                        let (mine, nx) = (cur.clone(), next.clone());
                        let h = spawn_any(local_of(k), async move {
                            let p = mine.acquire().await;
                            drop(p);
                            log(m, ti, k, at);
                            nx.add_permits(1);
                            done();
                        });
                        current().join(h);
                        self.spawned += 1;
                        cur = next;
                    }
                    Armed::ChainSem(first)
                }
                ChainKind::Join => {
                    // task 0 waits for the trigger; task k awaits the join handle of task k-1
                    let (first_tx, first_rx) = oneshot::channel::<()>();
                    let mut prev: tokio::task::JoinHandle<()> = spawn_any(local_of(0), async move {
                        let _ = first_rx.await;
                        log(m, ti, 0, at);
                        done();
                    });
                    self.spawned += 1;
                    for k in 1..*depth {
                        let p = prev;
                        prev = spawn_any(local_of(k), async move {
                            let _ = p.await;
                            log(m, ti, k, at);
                            done();
                        });
                        self.spawned += 1;
                    }
                    current().join(prev);
                    Armed::ChainOneshot(Some(first_tx))
                }
            },
            Scenario::Drain { m: items } => {
                let (tx, mut rx) = mpsc::unbounded_channel::<u64>();
                let items = *items;
                let h = spawn_any(t.local, async move {
                    let mut got = 0usize;
                    while let Some(_v) = rx.recv().await {
                        got += 1;
                        if got % 64 == 0 || got == items {
                            log(m, ti, got, at);
                        }
                        if got == items {
                            break;
                        }
                    }
                    done();
                });
                current().join(h);
                self.spawned += 1;
                Armed::Drain(tx, items)
            }
        };
        self.armed[ti] = armed;
    }

    fn fire(&mut self, ti: usize) {
        let (m, t) = (self.idx, self.triggers[ti].clone());
        let at = t.time_ns;
        match &t.scenario {
            Scenario::Burst { n, yields, sleep_ns } => {
                for k in 0..*n {
                    let (yields, sleep_ns) = (*yields, *sleep_ns);
                    let h = spawn_any(t.local, async move {
                        log(m, ti, k, at);
                        for y in 0..yields {
                            tokio::task::yield_now().await;
                            // (very long chains are logged sparsely)
                            if yields <= 50_000 || y % 4096 == 0 || y + 1 == yields {
                                log(m, ti, k, at);
                            }
                        }
                        if sleep_ns > 0 {
                            sleep(Duration::from_nanos(sleep_ns)).await;
                            log(m, ti, k, at + sleep_ns);
                            // half of the bursts end right after the timer wake-up (a trailing yield would
                            // keep the scheduler's local queue busy and hide tasks left in its inject queue)
                            if yields % 2 == 1 {
                                tokio::task::yield_now().await;
                                log(m, ti, k, at + sleep_ns);
                            }
                        }
                        done();
                    });
                    current().join(h);
                    self.spawned += 1;
                }
            }
            Scenario::LateAnswer { n, timeout_ns, answer_ns, sleep_ns } => {
                let mut txs = Vec::new();
                for k in 0..*n {
                    let (timeout_ns, answer_ns, sleep_ns) = (*timeout_ns, *answer_ns, *sleep_ns);
                    let (tx, rx) = oneshot::channel::<()>();
                    txs.push(tx);
                    let h = spawn_any(t.local, async move {
                        let r = des::time::timeout(Duration::from_nanos(timeout_ns), rx).await;
                        log(m, ti, k, if r.is_ok() { at + answer_ns } else { u64::MAX });
                        sleep(Duration::from_nanos(sleep_ns)).await;
                        log(m, ti, k, at + answer_ns + sleep_ns);
                        done();
                    });
                    current().join(h);
                    self.spawned += 1;
                }
                self.armed[ti] = Armed::Answer(txs);
                schedule_in(Message::default().kind(ANSWER).id(ti as u16), Duration::from_nanos(*answer_ns));
            }
            Scenario::Stagger { n, base_ns, descending } => {
                let order: Vec<usize> = if *descending { (0..*n).rev().collect() } else { (0..*n).collect() };
                for k in order {
                    let d = *base_ns + k as u64 * 100_000;
                    let h = spawn_any(t.local, async move {
                        sleep(Duration::from_nanos(d)).await;
                        log(m, ti, k, at + d);
                        done();
                    });
                    current().join(h);
                    self.spawned += 1;
                }
            }
            Scenario::FarArmed { n, d_ns } => {
                for k in 0..*n {
                    let d_ns = *d_ns;
                    let h = spawn_any(t.local, async move {
                        let mut far = std::pin::pin!(sleep(Duration::MAX));
                        let _ = futures::poll!(far.as_mut());
                        far.as_mut().reset(SimTime::from_duration(Duration::from_nanos(at + d_ns)));
                        if k % 2 == 1 {
                            tokio::select! {
                                biased;
                                () = sleep(Duration::from_nanos(d_ns / 2)) => log(m, ti, k, at + d_ns / 2),
                                () = &mut far => log(m, ti, k, 0),
                            }
                        } else {
                            far.await;
                            log(m, ti, k, at + d_ns);
                        }
                        done();
                    });
                    current().join(h);
                    self.spawned += 1;
                }
            }
            Scenario::TwinTimer { n, d_ns } => {
                for k in 0..*n {
                    let d_ns = *d_ns;
                    let h = spawn_any(t.local, async move {
                        let mut guard = Box::pin(sleep(Duration::from_nanos(d_ns)));
                        let mut own = std::pin::pin!(sleep(Duration::from_nanos(d_ns)));
                        let _ = futures::poll!(guard.as_mut());
                        let _ = futures::poll!(own.as_mut());
                        drop(guard);
                        own.await;
                        log(m, ti, k, at + d_ns);
                        done();
                    });
                    current().join(h);
                    self.spawned += 1;
                }
            }
            Scenario::Rearm { n, d_ns, rearms } => {
                for k in 0..*n {
                    let (d_ns, rearms) = (*d_ns, *rearms);
                    let (tx, mut rx) = mpsc::unbounded_channel::<()>();
                    let h = spawn_any(t.local, async move {
                        let mut idle = std::pin::pin!(sleep(Duration::from_nanos(d_ns)));
                        let mut open = true;
                        loop {
                            tokio::select! {
                                biased;
                                item = rx.recv(), if open => match item {
                                    Some(()) => idle.as_mut().reset(SimTime::now() + Duration::from_nanos(d_ns)),
                                    None => open = false,
                                },
                                () = &mut idle => break,
                            }
                        }
                        log(m, ti, k, at + d_ns);
                        done();
                    });
                    current().join(h);
                    self.spawned += 1;
                    let _ = spawn_any(t.local, async move {
                        for _ in 0..rearms {
                            let _ = tx.send(());
                        }
                    });
                }
            }
            Scenario::Answered { n, timeout_ns, sleep_ns } => {
                for k in 0..*n {
                    let (timeout_ns, sleep_ns) = (*timeout_ns, *sleep_ns);
                    let (tx, rx) = oneshot::channel::<()>();
                    let h = spawn_any(t.local, async move {
                        let r = des::time::timeout(Duration::from_nanos(timeout_ns), rx).await;
                        // answered within the instant (an Elapsed would show as a late observation)
                        log(m, ti, k, if r.is_ok() { at } else { u64::MAX });
                        sleep(Duration::from_nanos(sleep_ns)).await;
                        log(m, ti, k, at + sleep_ns);
                        done();
                    });
                    current().join(h);
                    self.spawned += 1;
                    let _ = spawn_any(t.local, async move {
                        let _ = tx.send(());
                    });
                }
            }
            _ => match std::mem::replace(&mut self.armed[ti], Armed::None) {
                Armed::Notify(n) => n.notify_waiters(),
                Armed::ChainOneshot(tx) => {
                    if let Some(tx) = tx {
                        let _ = tx.send(());
                    }
                }
                Armed::ChainMpsc(tx) => {
                    let _ = tx.send(());
                }
                Armed::ChainSem(s) => s.add_permits(1),
                Armed::Drain(tx, items) => {
                    for i in 0..items {
                        let _ = tx.send(i as u64);
                    }
                }
                Armed::None | Armed::Answer(_) => {}
            },
        }
    }
}

impl Module for Stormy {
    fn stack(&self, mut stack: des::net::processing::ProcessingStack) -> des::net::processing::ProcessingStack {
        if self.triggers.iter().any(|t| matches!(t.scenario, Scenario::Captured { .. })) {
            stack.append(Capture { module: self.idx });
        }
        stack
    }

    fn at_sim_start(&mut self, _: usize) {
        self.armed = (0..self.triggers.len()).map(|_| Armed::None).collect();
        let mut last = 0;
        for ti in 0..self.triggers.len() {
            self.prepare(ti);
            let t = self.triggers[ti].time_ns;
            last = last.max(t);
            if t > 0 {
                let kind = if matches!(self.triggers[ti].scenario, Scenario::Captured { .. }) { CAPT } else { TRIG };
                schedule_at(Message::default().kind(kind).id(ti as u16), SimTime::from_duration(Duration::from_nanos(t)));
            }
        }
        // a later event of this module: work that was not finished within its instant resumes here
        schedule_at(Message::default().kind(SENTINEL), SimTime::from_duration(Duration::from_nanos(last + 500 * SEC)));
        for ti in 0..self.triggers.len() {
            if self.triggers[ti].time_ns == 0 {
                self.fire(ti);
            }
        }
    }

    fn handle_message(&mut self, msg: Message) {
        if msg.header().kind == ANSWER {
            if let Armed::Answer(txs) = std::mem::replace(&mut self.armed[msg.header().id as usize], Armed::None) {
                for tx in txs {
                    let _ = tx.send(());
                }
            }
            return;
        }
        if msg.header().kind == TRIG {
            let ti = msg.header().id as usize;
            self.fire(ti);
            if self.triggers[ti].then_shutdown {
                current().shutdown();
            }
        }
    }
}

pub struct Observed {
    pub log: Vec<LogRec>,
    pub finished: u64,
    pub result: Result<(), String>,
    pub panicked: Option<String>,
}

pub fn execute(case: &Case) -> Observed {
    LOG.with(|l| l.borrow_mut().clear());
    CAPTURE.with(|c| c.borrow_mut().clear());
    FINISHED.with(|f| *f.borrow_mut() = 0);
    let res = vcommon::catch(|| {
        let mut sim = Sim::new(());
        for (mi, trig) in case.modules.iter().enumerate() {
            sim.node(format!("m{mi}"), Stormy { idx: mi, triggers: trig.clone(), armed: Vec::new(), spawned: 0 });
        }
        let rt = Builder::seeded(5).quiet().build(sim.freeze());
        rt.run().map(|_| ()).map_err(|e| format!("{e}"))
    });
    let log = LOG.with(|l| std::mem::take(&mut *l.borrow_mut()));
    CAPTURE.with(|c| c.borrow_mut().clear());
    let finished = FINISHED.with(|f| *f.borrow());
    match res {
        Ok(result) => Observed { log, finished, result, panicked: None },
        Err(p) => Observed { log, finished, result: Err(String::new()), panicked: Some(p) },
    }
}

fn expected_tasks(case: &Case) -> u64 {
    case.modules
        .iter()
        .flatten()
        .map(|t| match &t.scenario {
            Scenario::Burst { n, .. } | Scenario::Notify { n } | Scenario::Captured { n } | Scenario::Answered { n, .. } | Scenario::Rearm { n, .. } | Scenario::TwinTimer { n, .. } | Scenario::LateAnswer { n, .. } | Scenario::Stagger { n, .. } | Scenario::FarArmed { n, .. } => *n as u64,
            Scenario::Chain { depth, .. } => *depth as u64,
            Scenario::Drain { .. } => 1,
        })
        .sum()
}

pub type Finding = (&'static str, String);

pub fn check(case: &Case, o: &Observed) -> Vec<Finding> {
    let mut f = Vec::new();
    if let Some(p) = &o.panicked {
        f.push(("run-panicked", format!("the simulation unwound: {p}")));
        return f;
    }
    let suffix_known = case.local_over_budget();
    let mut late = 0usize;
    let mut first: Option<&LogRec> = None;
    for r in &o.log {
        if r.now != r.expected {
            late += 1;
            if first.is_none() {
                first = Some(r);
            }
        }
    }
    if let Some(r) = first {
        let trig = &case.modules[r.module][r.trigger];
        let kind = if r.now < r.expected {
            "early-wakeup"
        } else if suffix_known && trig.local && trig.polls() > 61 {
            "late-wakeup-spawn-local-over-61-polls"
        } else {
            "late-wakeup"
        };
        f.push((
            kind,
            format!(
                "module m{} {:?} (local = {}): task {} observed SimTime::now() = {} ns after an await whose condition became true at {} ns ({} of {} observations off)",
                r.module, trig.scenario, trig.local, r.task, r.now, r.expected, late, o.log.len()
            ),
        ));
    }
    let want = expected_tasks(case);
    if o.finished != want && f.is_empty() {
        let kind = if suffix_known { "late-wakeup-spawn-local-over-61-polls" } else { "not-finished" };
        f.push((kind, format!("{} of {} tasks finished by the end of the run (result {:?})", o.finished, want, o.result)));
    }
    if f.is_empty() {
        if let Err(e) = &o.result {
            f.push(("run-error", format!("all tasks finished in time but run() returned an error: {e}")));
        }
    }
    f
}

const SIZES: &[usize] = &[1, 2, 60, 61, 62, 122, 123, 200, 1000];

pub fn gen_trigger(rng: &mut Rng, time_ns: u64, local: bool, big: bool) -> Trigger {
    // spawn_local work stays within one LocalSet turn unless this is the known-shape case
    let cap = if local && !big { 50 } else { usize::MAX };
    let size = |rng: &mut Rng| -> usize {
        let s = if rng.chance(1, 12) && cap == usize::MAX { 5000 } else { *rng.pick(SIZES) };
        if local && big {
            s.max(62)
        } else {
            s.min(cap)
        }
    };
    let marathon = !local && rng.chance(1, 300);
    let scenario = match rng.below(15) {
        13 => Scenario::Stagger { n: 2 + rng.usize_below(8), base_ns: *rng.pick(&[1_000_000u64, SEC, SEC + 200_000]), descending: rng.chance(1, 2) },
        14 => Scenario::FarArmed { n: 2 + rng.usize_below(6), d_ns: *rng.pick(&[2_000_000u64, SEC, 6 * SEC]) },
        12 => {
            let timeout_ns = *rng.pick(&[10 * SEC, 3 * SEC]);
            Scenario::LateAnswer { n: 1 + rng.usize_below(5), timeout_ns, answer_ns: *rng.pick(&[SEC, 2 * SEC]), sleep_ns: *rng.pick(&[20 * SEC, 5 * SEC, SEC]) }
        }
        11 => Scenario::TwinTimer { n: 1 + rng.usize_below(6), d_ns: *rng.pick(&[1_000_000u64, SEC, 6 * SEC]) },
        10 => Scenario::Rearm { n: 1 + rng.usize_below(6), d_ns: *rng.pick(&[1_000_000u64, SEC, 6 * SEC]), rearms: 1 + rng.usize_below(3) },
        // one task that stays runnable for several hundred thousand polls within one instant (takes the executor
        // a noticeable amount of wall-clock time: nothing but virtual time may decide when it continues)
        _ if marathon => Scenario::Burst { n: 1, yields: 300_000 + rng.usize_below(300_000), sleep_ns: if rng.chance(1, 2) { SEC } else { 0 } },
        8 => Scenario::Captured { n: size(rng) },
        9 => {
            // the disarmed timer's deadline lies before, at or after the deadline of the sleep that follows
            let timeout_ns = *rng.pick(&[1_000_000u64, SEC, 7 * SEC]);
            let sleep_ns = *rng.pick(&[1_000_000u64, SEC, 3 * SEC, 10 * SEC]);
            Scenario::Answered { n: 1 + rng.usize_below(8), timeout_ns, sleep_ns }
        }
        0..=2 => {
            let n = size(rng);
            let yields = match rng.below(4) {
                0 => 0,
                1 => 1,
                2 => 1 + rng.usize_below(5),
                _ => rng.usize_below(100),
            };
            // keep the total number of polls of one event bounded
            let yields = if cap != usize::MAX { yields.min(cap / n.max(1)).min(3) } else { yields.min(20_000 / n.max(1)) };
            let sleep_ns = if rng.chance(1, 2) { *rng.pick(&[1_000_000u64, SEC, 5 * SEC]) } else { 0 };
            let n = if cap != usize::MAX { n.min(cap / (yields + 2)).max(1) } else { n };
            Scenario::Burst { n, yields, sleep_ns }
        }
        3 => Scenario::Notify { n: size(rng) },
        4..=6 => {
            let depth = match rng.below(4) {
                0 => size(rng),
                1 => 2 + rng.usize_below(30),
                _ => size(rng).min(2000),
            };
            let depth = depth.min(cap);
            let depth = if local && big { depth.max(62) } else { depth };
            Scenario::Chain { depth: depth.max(1), kind: *rng.pick(&[ChainKind::Oneshot, ChainKind::Mpsc, ChainKind::Semaphore, ChainKind::Join]) }
        }
        _ => Scenario::Drain { m: *rng.pick(&[1usize, 100, 128, 129, 1000, 10_000]) },
    };
    // waiters must have been polled once before notify_waiters can reach them
    let time_ns = if matches!(scenario, Scenario::Notify { .. } | Scenario::Captured { .. }) && time_ns == 0 { SEC } else { time_ns };
    let mixed = !local && matches!(scenario, Scenario::Chain { .. }) && rng.chance(1, 3);
    let mut t = Trigger { time_ns, scenario, local, then_shutdown: false, mixed };
    if local && !big && t.polls() > 55 {
        t.scenario = Scenario::Notify { n: 40 };
    }
    if matches!(t.scenario, Scenario::Notify { .. } | Scenario::Captured { .. }) && t.time_ns == 0 {
        t.time_ns = SEC;
    }
    t
}

pub fn gen_case(rng: &mut Rng, known_shape: bool) -> Case {
    if known_shape {
        // exactly one module with spawn_local work beyond one LocalSet turn, nothing else in it
        let at = rng.below(3) * SEC;
        let t = gen_trigger(rng, at, true, true);
        return Case { modules: vec![vec![t]] };
    }
    if rng.chance(1, 6) {
        // one module with a single trigger whose handler also shuts the module down
        let at = (1 + rng.below(3)) * SEC;
        let local = rng.chance(1, 4);
        let mut t = gen_trigger(rng, at, local, false);
        let completes_in_instant = match &t.scenario {
            Scenario::Burst { sleep_ns, .. } => *sleep_ns == 0,
            Scenario::Captured { .. } | Scenario::Answered { .. } | Scenario::Rearm { .. } | Scenario::TwinTimer { .. } | Scenario::LateAnswer { .. } | Scenario::Stagger { .. } | Scenario::FarArmed { .. } => false,
            _ => true,
        };
        if completes_in_instant && t.time_ns > 0 {
            t.then_shutdown = true;
            return Case { modules: vec![vec![t]] };
        }
    }
    let modules = 1 + rng.usize_below(3);
    Case {
        modules: (0..modules)
            .map(|_| {
                let k = 1 + rng.usize_below(4);
                let mut times: Vec<u64> = (0..k).map(|_| rng.below(4) * SEC + rng.below(2) * 1_000_000).collect();
                times.sort_unstable();
                times
                    .iter()
                    .map(|t| {
                        let local = rng.chance(1, 4);
                        gen_trigger(rng, *t, local, false)
                    })
                    .collect()
            })
            .collect(),
    }
}

fn case_hash(c: &Case) -> u64 {
    let mut h = Hasher64::new();
    h.str(&serde_json::to_string(c).unwrap());
    h.finish()
}

pub fn case_json(case: &Case) -> Value {
    json!({"driver": "desmon", "sub": "c06", "case": serde_json::to_value(case).unwrap()})
}

pub fn cmd(args: &Args) -> Report {
    let mut rep = Report::new("C06");
    let mut rng = Rng::new(args.stream_seed("c06"));
    let cases = args.cases(48_000, 640_000);
    for i in 0..cases {
        let known_shape = i % 10 == 9;
        let case = gen_case(&mut rng, known_shape);
        vcommon::mark_case(&format!("c06:{}:{}:{}", args.seed, args.shard, i));
        let o = execute(&case);
        let findings = check(&case, &o);
        rep.eval();
        rep.count("wakeups_observed", o.log.len() as u64);
        rep.count("tasks_finished", o.finished);
        let mut max_polls = 0;
        for t in case.modules.iter().flatten() {
            max_polls = max_polls.max(t.polls());
            let key = match &t.scenario {
                Scenario::Burst { yields, .. } if *yields >= 300_000 => "scenarios_one_task_runnable_for_over_300000_polls",
                Scenario::Burst { .. } => "scenarios_spawn_burst",
                Scenario::Notify { .. } => "scenarios_notify_broadcast",
                Scenario::Chain { .. } => "scenarios_wake_chain",
                Scenario::Drain { .. } => "scenarios_channel_drain",
                Scenario::Captured { .. } => "scenarios_message_consumed_by_processing_element",
                Scenario::Answered { .. } => "scenarios_timeout_answered_within_the_instant_then_sleep",
                Scenario::Rearm { .. } => "scenarios_sleep_rearmed_to_its_own_deadline",
                Scenario::TwinTimer { .. } => "scenarios_twin_timers_first_dropped",
                Scenario::LateAnswer { .. } => "scenarios_timeout_answered_in_a_later_event_then_sleep",
                Scenario::Stagger { .. } => "scenarios_deadlines_less_than_a_millisecond_apart",
                Scenario::FarArmed { .. } => "scenarios_far_future_sleeps_armed_to_a_common_deadline",
            };
            rep.count(key, 1);
            if t.local {
                rep.count("scenarios_with_spawn_local", 1);
            }
            if t.then_shutdown {
                rep.count("scenarios_whose_handler_also_requests_shutdown", 1);
            }
            if t.mixed {
                rep.count("wake_chains_alternating_between_runtime_and_local_tasks", 1);
            }
            if t.polls() > 61 {
                rep.count("instants_needing_more_than_61_polls", 1);
            }
            if t.polls() > 122 {
                rep.count("instants_needing_more_than_122_polls", 1);
            }
        }
        rep.max("max_polls_needed_in_one_instant", max_polls as u64);
        if known_shape {
            rep.count("spawn_local_over_budget_cases", 1);
        }
        if findings.is_empty() && max_polls > 61 {
            rep.nontrivial(case_hash(&case));
            if rep.wants_sample() && case.modules.len() == 1 && case.modules[0].len() <= 2 {
                rep.sample(json!({"case": serde_json::to_value(&case).unwrap(), "wakeups": o.log.len(), "tasks": o.finished}));
            }
        }
        let mut stop = false;
        for (kind, detail) in findings.into_iter().take(2) {
            if kind == "late-wakeup-spawn-local-over-61-polls" {
                rep.violation_soft(&format!("C06/{kind}"), &detail, case_json(&case));
            } else if !rep.violation(&format!("C06/{kind}"), &detail, case_json(&case)) {
                stop = true;
            }
        }
        if stop {
            break;
        }
    }
    rep
}

pub fn replay(v: &Value) -> i32 {
    let case: Case = serde_json::from_value(v.get("case").expect("case").clone()).expect("case");
    println!("case: {}", serde_json::to_string_pretty(&case).unwrap());
    let o = execute(&case);
    println!("{} wake-ups observed, {} tasks finished, result {:?}", o.log.len(), o.finished, o.result);
    let f = check(&case, &o);
    if f.is_empty() {
        println!("no violation");
        0
    } else {
        for (k, d) in f {
            println!("VIOLATION reproduced: C06/{k}: {d}");
        }
        1
    }
}
