//! C08 — a message sent into a gate chain reaches the module at the far end.
//!
//! A chain `[g0 .. gk]` is declared (owners, channels per hop), then built by `connect` calls in a
//! generated permutation / orientation (with repeated calls mixed in). The declared chain is the
//! reference for the structural API and for the delivery (who, when, header).

use des::net::channel::{ChannelDropBehaviour, ChannelMetrics};
use des::net::gate::GateKind;
use des::prelude::*;
use serde::{Deserialize, Serialize};
use serde_json::{json, Value};
use std::cell::RefCell;
use std::sync::Arc;
use vcommon::{Args, Hasher64, Report, Rng};

const TIMER: u16 = 9;
const HEADER: usize = 64;

#[derive(Debug, Clone, Serialize, Deserialize, PartialEq)]
pub struct GateDecl {
    /// index of the owning module
    pub owner: usize,
    /// gate name and cluster layout
    pub name: String,
    pub size: usize,
    pub pos: usize,
}

#[derive(Debug, Clone, Serialize, Deserialize, PartialEq)]
pub struct Hop {
    /// (bitrate, latency ns) of the channel on this hop, if any
    pub channel: Option<(usize, u64)>,
    /// jitter of that channel (the delay of the hop then lies in [latency + transmission, + jitter))
    #[serde(default)]
    pub jitter_ns: u64,
}

#[derive(Debug, Clone, Serialize, Deserialize, PartialEq)]
pub struct ConnectCall {
    pub hop: usize,
    /// true: g[hop].connect(g[hop+1]); false: g[hop+1].connect(g[hop])
    pub forward: bool,
    /// a repetition of an earlier call (idempotence)
    pub repeat: bool,
}

#[derive(Debug, Clone, Serialize, Deserialize, PartialEq)]
pub struct Send {
    pub time_ns: u64,
    /// false: from g0 towards gk, true: from gk towards g0
    pub reverse: bool,
    pub body: usize,
    /// `send_in(.., delay)` instead of `send`
    pub delay_ns: u64,
    pub seq: u64,
    /// the message is sent by a third module (which owns no gate of the chain) through a reference to the chain's end gate
    #[serde(default)]
    pub proxy: bool,
    /// the receiving module sends the very message object it received back over the chain
    #[serde(default)]
    pub echo: bool,
    /// the handler sends a second message of the same size (seq + 1000) right behind this one: on every hop with a
    /// transmission time the second is queued behind the first (only on chains without jitter, never proxy / echo)
    #[serde(default)]
    pub twin: bool,
}

#[derive(Debug, Clone, Serialize, Deserialize, PartialEq)]
pub struct Case {
    pub modules: usize,
    pub gates: Vec<GateDecl>,
    pub hops: Vec<Hop>,
    pub calls: Vec<ConnectCall>,
    pub sends: Vec<Send>,
    /// the third module that sends through gate references shuts itself down in the event of its last send
    /// (what it sent in that event is delivered all the same)
    #[serde(default)]
    pub proxy_shutdown: bool,
    /// how the members of gate clusters get into their module's gate list: 0 as a whole (ascending, contiguous),
    /// 1 member by member in descending order, 2 ascending but with a foreign gate after the first member,
    /// 3 member by member starting in the middle (create_raw_gate, as a module growing a cluster would)
    #[serde(default)]
    pub raw_layout: u8,
}

#[derive(Debug, Clone)]
struct Pay {
    seq: u64,
    size: usize,
}
impl MessageBody for Pay {
    fn byte_len(&self) -> usize {
        self.size
    }
}

#[derive(Debug, Clone)]
struct Arrival {
    module: usize,
    seq: u64,
    t: u64,
    sender_id: u16,
    receiver_id: u16,
    last_gate: Option<(usize, String, usize)>,
}

thread_local! {
    static ARRIVALS: RefCell<Vec<Arrival>> = const { RefCell::new(Vec::new()) };
    /// seqs whose sender sends a twin right behind them
    static TWINS: RefCell<Vec<u64>> = const { RefCell::new(Vec::new()) };
    /// the two end gates of the chain, for sends made by the proxy module
    static END_GATES: RefCell<Vec<GateRef>> = const { RefCell::new(Vec::new()) };
    /// sequence numbers to be echoed, and those that were echoed already
    static ECHO: RefCell<(Vec<u64>, Vec<u64>)> = const { RefCell::new((Vec::new(), Vec::new())) };
}

struct Node {
    idx: usize,
    /// (time, gate name, pos, body, delay, seq, end gate to use by reference (proxy sends))
    plan: Vec<(u64, String, usize, usize, u64, u64, Option<usize>)>,
    shutdown_after_last: bool,
}

fn module_index(path: &str) -> usize {
    path.trim_start_matches('m').parse().unwrap_or(usize::MAX)
}

impl Module for Node {
    fn at_sim_start(&mut self, _: usize) {
        for (i, p) in self.plan.iter().enumerate() {
            schedule_at(Message::default().kind(TIMER).id(i as u16), SimTime::from_duration(Duration::from_nanos(p.0)));
        }
    }

    fn handle_message(&mut self, msg: Message) {
        if msg.header().kind == TIMER && msg.try_content::<Pay>().is_none() {
            let (_, name, pos, body, delay, seq, by_ref) = self.plan[msg.header().id as usize].clone();
            let out = Message::default().with_content(Pay { seq, size: body });
            if let Some(end) = by_ref {
                let gate = END_GATES.with(|g| g.borrow()[end].clone());
                if delay > 0 {
                    send_in(out, gate, Duration::from_nanos(delay));
                } else {
                    send(out, gate);
                }
                if self.shutdown_after_last && msg.header().id as usize + 1 == self.plan.len() {
                    current().shutdown();
                }
            } else {
                let twin = TWINS.with(|t| t.borrow().contains(&seq));
                let second = twin.then(|| Message::default().with_content(Pay { seq: seq + 1000, size: body }));
                if delay > 0 {
                    send_in(out, (name.as_str(), pos), Duration::from_nanos(delay));
                    if let Some(m) = second {
                        send_in(m, (name.as_str(), pos), Duration::from_nanos(delay));
                    }
                } else {
                    send(out, (name.as_str(), pos));
                    if let Some(m) = second {
                        send(m, (name.as_str(), pos));
                    }
                }
            }
            return;
        }
        if let Some(p) = msg.try_content::<Pay>() {
            let seq = p.seq;
            let h = msg.header();
            let last_gate = h.last_gate.as_ref().map(|g| (module_index(g.owner().path().as_str()), g.name().to_string(), g.pos()));
            ARRIVALS.with(|a| {
                a.borrow_mut().push(Arrival {
                    module: self.idx,
                    seq: p.seq,
                    t: SimTime::now().as_nanos() as u64,
                    sender_id: h.sender_module_id.0,
                    receiver_id: h.receiver_module_id.0,
                    last_gate,
                });
            });
            let back = ECHO.with(|e| {
                let mut e = e.borrow_mut();
                if e.0.contains(&seq) && !e.1.contains(&seq) {
                    e.1.push(seq);
                    true
                } else {
                    false
                }
            });
            if back {
                // the same message object travels back from the gate it arrived on
                if let Some(g) = msg.header().last_gate.clone() {
                    send(msg, g);
                }
            }
        }
    }
}

fn tx_ns(len: usize, bitrate: usize) -> u64 {
    if bitrate == 0 {
        return 0;
    }
    let num = (len as u128) * 8 * 1_000_000_000u128;
    let b = bitrate as u128;
    ((num + b / 2) / b) as u64
}

/// sum of the jitters of the hops (0: the arrival time is exact)
fn path_jitter(case: &Case) -> u64 {
    case.hops.iter().filter(|h| h.channel.is_some()).map(|h| h.jitter_ns).sum()
}

fn path_delay(case: &Case, body: usize) -> u64 {
    case.hops
        .iter()
        .filter_map(|h| h.channel)
        .map(|(bitrate, lat)| lat + tx_ns(body + HEADER, bitrate))
        .sum()
}

pub type Finding = (&'static str, String);

#[derive(Default)]
pub struct Obs {
    pub deliveries: u64,
    pub walks: u64,
    pub connects: u64,
    pub repeats: u64,
    pub third_peer_rejections: u64,
    pub proxy_sends: u64,
    pub echoes: u64,
    pub twins: u64,
}

fn gate_id(case: &Case, g: &GateRef) -> Option<usize> {
    let owner = module_index(g.owner().path().as_str());
    case.gates.iter().position(|d| d.owner == owner && d.name == g.name() && d.pos == g.pos())
}

/// walks the chain from gate `from` with the public API and returns the declared indices it sees
fn walk(case: &Case, gates: &[GateRef], from: usize) -> Result<Vec<usize>, String> {
    let Some(iter) = gates[from].path_iter() else {
        return Err(format!("path_iter() of gate {from} returned None"));
    };
    let mut v = Vec::new();
    for con in iter {
        if v.len() > case.gates.len() + 2 {
            return Err(format!("walk from gate {from} does not terminate: {v:?}"));
        }
        match gate_id(case, &con.endpoint) {
            Some(i) => v.push(i),
            None => return Err(format!("walk from gate {from} reached an undeclared gate")),
        }
    }
    Ok(v)
}

pub fn execute(case: &Case) -> (Vec<Finding>, Obs) {
    let mut f: Vec<Finding> = Vec::new();
    let mut obs = Obs::default();
    ARRIVALS.with(|a| a.borrow_mut().clear());
    let k = case.hops.len();
    let res = vcommon::catch(|| {
        let mut findings: Vec<Finding> = Vec::new();
        let mut sim = Sim::new(());
        // plans of the two endpoint owners
        let mut plans: Vec<Vec<(u64, String, usize, usize, u64, u64, Option<usize>)>> = vec![Vec::new(); case.modules + 1];
        for s in &case.sends {
            let g = if s.reverse { &case.gates[k] } else { &case.gates[0] };
            if s.proxy {
                plans[case.modules].push((s.time_ns, g.name.clone(), g.pos, s.body, s.delay_ns, s.seq, Some(usize::from(s.reverse))));
            } else {
                plans[g.owner].push((s.time_ns, g.name.clone(), g.pos, s.body, s.delay_ns, s.seq, None));
            }
        }
        for (i, plan) in plans.into_iter().enumerate() {
            if i == case.modules {
                if !plan.is_empty() {
                    sim.node("px", Node { idx: i, plan, shutdown_after_last: case.proxy_shutdown });
                }
            } else {
                sim.node(format!("m{i}"), Node { idx: i, plan, shutdown_after_last: false });
            }
        }
        // gates (clusters are created as a whole)
        let mut gates: Vec<GateRef> = Vec::new();
        if case.raw_layout != 0 {
            let mut seen: Vec<(usize, &str)> = Vec::new();
            for d in case.gates.iter().filter(|d| d.size > 1) {
                if seen.contains(&(d.owner, d.name.as_str())) {
                    continue;
                }
                seen.push((d.owner, d.name.as_str()));
                let m = sim.get(&format!("m{}", d.owner).into()).expect("module");
                let order: Vec<usize> = match case.raw_layout {
                    1 => (0..d.size).rev().collect(),
                    2 => (0..d.size).collect(),
                    _ => (0..d.size).map(|k| (k + d.size / 2) % d.size).collect(),
                };
                for (n, pos) in order.into_iter().enumerate() {
                    let _ = m.create_raw_gate(&d.name, d.size, pos);
                    if case.raw_layout == 2 && n == 0 {
                        let _ = m.create_raw_gate(&format!("aux-{}", d.name), 1, 0);
                    }
                }
            }
        }
        for d in &case.gates {
            let path = format!("m{}", d.owner);
            let g = if d.size == 1 {
                sim.gate(path.as_str(), &d.name)
            } else {
                sim.gates(path.as_str(), &d.name, d.size)[d.pos].clone()
            };
            gates.push(g);
        }
        let mut ids: Vec<u16> = (0..case.modules).map(|i| sim.get(&format!("m{i}").into()).expect("module").id().0).collect();
        // the proxy's id (or a value no module has, if there is none)
        ids.push(sim.get(&"px".into()).map_or(u16::MAX, |m| m.id().0));
        END_GATES.with(|g| *g.borrow_mut() = vec![gates[0].clone(), gates[k].clone()]);
        ECHO.with(|e| *e.borrow_mut() = (case.sends.iter().filter(|s| s.echo).map(|s| s.seq).collect(), Vec::new()));
        TWINS.with(|t| *t.borrow_mut() = case.sends.iter().filter(|s| s.twin).map(|s| s.seq).collect());

        // connect calls in the generated order
        let mut connected = vec![false; k];
        let mut obs_connects = 0u64;
        let mut obs_repeats = 0u64;
        for c in &case.calls {
            let (a, b) = if c.forward { (c.hop, c.hop + 1) } else { (c.hop + 1, c.hop) };
            let ch = case.hops[c.hop].channel.map(|(bitrate, lat)| {
                Channel::new(ChannelMetrics::new(bitrate, Duration::from_nanos(lat), Duration::from_nanos(case.hops[c.hop].jitter_ns), ChannelDropBehaviour::Queue(None)))
            });
            let before: Option<(Vec<GateKind>, Vec<Option<usize>>)> = if c.repeat {
                Some((gates.iter().map(|g| g.kind()).collect(), gates.iter().map(|g| g.next_gate().and_then(|n| gate_id(case, &n))).collect()))
            } else {
                None
            };
            gates[a].clone().connect(gates[b].clone(), ch);
            obs_connects += 1;
            connected[c.hop] = true;
            // symmetric: each side sees the other
            for (x, y) in [(a, b), (b, a)] {
                let sees = match gates[x].kind() {
                    GateKind::Standalone => false,
                    GateKind::Endpoint => gates[x].next_gate().is_some_and(|n| Arc::ptr_eq(&n, &gates[y])),
                    GateKind::Transit => true, // checked through the walks below
                };
                if !sees {
                    findings.push(("asymmetric", format!("after connecting gates {a} and {b}, gate {x} does not see gate {y}")));
                }
            }
            if let Some((kinds, nexts)) = before {
                obs_repeats += 1;
                let kinds2: Vec<GateKind> = gates.iter().map(|g| g.kind()).collect();
                let nexts2: Vec<Option<usize>> = gates.iter().map(|g| g.next_gate().and_then(|n| gate_id(case, &n))).collect();
                if kinds != kinds2 || nexts != nexts2 {
                    findings.push(("not-idempotent", format!("repeating the connect of hop {} changed the gates", c.hop)));
                }
            }
        }
        assert!(connected.iter().all(|c| *c), "generator: every hop is connected");

        // structural API against the declared chain
        let mut obs_walks = 0u64;
        for (i, g) in gates.iter().enumerate() {
            let want = if i == 0 || i == k { GateKind::Endpoint } else { GateKind::Transit };
            if g.kind() != want {
                findings.push(("kind", format!("gate {i} of a chain with {k} hops has kind {:?}, expected {want:?}", g.kind())));
            }
        }
        let fwd: Vec<usize> = (1..=k).collect();
        let bwd: Vec<usize> = (0..k).rev().collect();
        match walk(case, &gates, 0) {
            Ok(w) if w == fwd => obs_walks += 1,
            Ok(w) => findings.push(("walk", format!("path_iter from gate 0 yields {w:?}, declared chain is {fwd:?}"))),
            Err(e) => findings.push(("walk", e)),
        }
        match walk(case, &gates, k) {
            Ok(w) if w == bwd => obs_walks += 1,
            Ok(w) => findings.push(("walk-mirror", format!("path_iter from gate {k} yields {w:?}, the mirror image of the declared chain is {bwd:?}"))),
            Err(e) => findings.push(("walk-mirror", e)),
        }
        for (from, to) in [(0usize, k), (k, 0usize)] {
            match gates[from].path_end() {
                Some(e) if Arc::ptr_eq(&e, &gates[to]) => {}
                other => findings.push(("path-end", format!("path_end of gate {from} is {:?}, expected gate {to}", other.and_then(|g| gate_id(case, &g))))),
            }
        }
        for (from, hop) in [(0usize, 0usize), (k, k - 1)] {
            let has = gates[from].channel().is_some();
            if has != case.hops[hop].channel.is_some() {
                findings.push(("channel", format!("gate {from}.channel().is_some() = {has}, declared hop {hop} has channel = {}", case.hops[hop].channel.is_some())));
            }
            if let (Some(ch), Some((bitrate, lat))) = (gates[from].channel(), case.hops[hop].channel) {
                let m = ch.metrics();
                if m.bitrate != bitrate || m.latency != Duration::from_nanos(lat) {
                    findings.push(("channel", format!("channel on gate {from} has metrics {m:?}, declared ({bitrate}, {lat} ns)")));
                }
            }
        }
        for i in 1..k {
            if gates[i].path_iter().is_some() {
                findings.push(("kind", format!("transit gate {i} offers a path_iter")));
            }
        }

        // a third peer must be rejected. Done on spare gates: the rejected call poisons the locks of the
        // two gates involved, so they cannot be inspected afterwards.
        let sx = sim.gate("m0", "spare-x");
        let sy = sim.gate("m0", "spare-y");
        let sz = sim.gate("m0", "spare-z");
        let sw = sim.gate("m0", "spare-w");
        sx.connect(sy.clone(), None);
        sy.clone().connect(sz, None);
        let third_rejected = Some(vcommon::catch(|| sy.connect(sw, None)).is_err());

        // run the deliveries
        let mut run_ok = true;
        if findings.is_empty() {
            let rt = Builder::seeded(7).quiet().build(sim.freeze());
            run_ok = rt.run().is_ok();
        } else {
            drop(sim);
        }
        (findings, ids, run_ok, obs_connects, obs_repeats, obs_walks, third_rejected)
    });
    let (ids, run_ok) = match res {
        Err(p) => {
            f.push(("panicked", format!("building / running the chain panicked: {p}")));
            return (f, obs);
        }
        Ok((findings, ids, run_ok, c, r, w, third)) => {
            f.extend(findings);
            obs.connects = c;
            obs.repeats = r;
            obs.walks = w;
            match third {
                Some(true) => obs.third_peer_rejections += 1,
                Some(false) => f.push(("third-peer", "a third connection on a transit gate was accepted".into())),
                None => {}
            }
            (ids, run_ok)
        }
    };
    if !f.is_empty() {
        return (f, obs);
    }
    if !run_ok {
        f.push(("run-error", "run() returned an error".into()));
        return (f, obs);
    }
    // deliveries against the declared chain
    let arrivals = ARRIVALS.with(|a| std::mem::take(&mut *a.borrow_mut()));
    END_GATES.with(|g| g.borrow_mut().clear());
    ECHO.with(|e| *e.borrow_mut() = (Vec::new(), Vec::new()));
    for s in &case.sends {
        let (src, dst) = if s.reverse { (k, 0) } else { (0, k) };
        let want_module = case.gates[dst].owner;
        let want_t = s.time_ns + s.delay_ns + path_delay(case, s.body);
        let got: Vec<&Arrival> = arrivals.iter().filter(|a| a.seq == s.seq).collect();
        if got.len() != 1 + usize::from(s.echo) {
            f.push((
                "delivery-count",
                format!("message {} sent on gate {src} at {} ns was delivered {} times (to modules {:?})", s.seq, s.time_ns + s.delay_ns, got.len(), got.iter().map(|a| a.module).collect::<Vec<_>>()),
            ));
            continue;
        }
        let a = got[0];
        if a.module != want_module {
            f.push(("wrong-receiver", format!("message {} sent on gate {src} was handled by module m{}, the far end gate {dst} belongs to m{want_module}", s.seq, a.module)));
            continue;
        }
        if s.twin {
            // the second message is queued behind the first on every hop with a transmission time (tandem of FIFO queues)
            let order: Vec<&Hop> = if s.reverse { case.hops.iter().rev().collect() } else { case.hops.iter().collect() };
            let (mut a1, mut a2) = (s.time_ns + s.delay_ns, s.time_ns + s.delay_ns);
            for h in order {
                if let Some((bitrate, lat)) = h.channel {
                    let tx = tx_ns(s.body + HEADER, bitrate);
                    let s2 = a2.max(a1 + tx);
                    a1 += tx + lat;
                    a2 = s2 + tx + lat;
                }
            }
            let twins: Vec<&Arrival> = arrivals.iter().filter(|x| x.seq == s.seq + 1000).collect();
            obs.twins += 1;
            if twins.len() != 1 {
                f.push(("delivery-count", format!("message {} (sent right behind message {} on gate {src}) was delivered {} times (to modules {:?})", s.seq + 1000, s.seq, twins.len(), twins.iter().map(|x| x.module).collect::<Vec<_>>())));
            } else if twins[0].module != want_module {
                f.push(("wrong-receiver", format!("message {} (sent right behind message {}) was handled by module m{}, the far end belongs to m{want_module}", s.seq + 1000, s.seq, twins[0].module)));
            } else if twins[0].t != a2 {
                f.push(("arrival-time", format!("message {} sent right behind message {} at {} ns: queued behind it on every transmitting hop it must arrive at {a2} ns, observed {} ns", s.seq + 1000, s.seq, s.time_ns + s.delay_ns, twins[0].t)));
            }
        }
        let jit = path_jitter(case);
        if a.t < want_t || a.t > want_t + jit {
            f.push((
                "arrival-time",
                format!("message {} ({} bytes) sent at {} ns over {} hops: expected arrival at {want_t} ns (sum of the per-hop delays; plus at most {jit} ns of jitter), observed {} ns", s.seq, s.body + HEADER, s.time_ns + s.delay_ns, k, a.t),
            ));
        }
        let sender = if s.proxy { case.modules } else { case.gates[src].owner };
        if a.sender_id != ids[sender] {
            f.push((
                "header-sender",
                format!(
                    "message {}: header.sender_module_id = {}, the sending module {} has id {}",
                    s.seq,
                    a.sender_id,
                    if s.proxy { "(a third module sending through a reference to the end gate)" } else { "(the owner of the gate)" },
                    ids[sender]
                ),
            ));
        }
        if s.proxy {
            obs.proxy_sends += 1;
        }
        if a.receiver_id != ids[want_module] {
            f.push(("header-receiver", format!("message {}: header.receiver_module_id = {}, the receiving module has id {}", s.seq, a.receiver_id, ids[want_module])));
        }
        let d = &case.gates[dst];
        if a.last_gate != Some((d.owner, d.name.clone(), d.pos)) {
            f.push(("header-last-gate", format!("message {}: header.last_gate = {:?}, the final gate is {:?}", s.seq, a.last_gate, (d.owner, &d.name, d.pos))));
        }
        obs.deliveries += 1;
        if s.echo {
            // the way back: same chain, same message object, sent by the far end's owner
            let b = got[1];
            obs.echoes += 1;
            let origin = case.gates[src].owner;
            if b.module != origin {
                f.push(("wrong-receiver", format!("message {} echoed from gate {dst} was handled by module m{}, the chain ends at m{origin}", s.seq, b.module)));
                continue;
            }
            let want_back = a.t + path_delay(case, s.body);
            if b.t < want_back || b.t > want_back + jit {
                f.push(("arrival-time", format!("message {} echoed at {} ns: expected back at {want_back} ns, observed {} ns", s.seq, a.t, b.t)));
            }
            if b.sender_id != ids[want_module] {
                f.push(("header-sender", format!("echo of message {}: header.sender_module_id = {}, the echoing module has id {}", s.seq, b.sender_id, ids[want_module])));
            }
            if b.receiver_id != ids[origin] {
                f.push((
                    "header-receiver",
                    format!("echo of message {} (the message object that was delivered before): header.receiver_module_id = {}, the receiving module has id {}", s.seq, b.receiver_id, ids[origin]),
                ));
            }
            let o = &case.gates[src];
            if b.last_gate != Some((o.owner, o.name.clone(), o.pos)) {
                f.push(("header-last-gate", format!("echo of message {}: header.last_gate = {:?}, the final gate is {:?}", s.seq, b.last_gate, (o.owner, &o.name, o.pos))));
            }
        }
    }
    let expected_arrivals = case.sends.len() + case.sends.iter().filter(|s| s.echo).count() + case.sends.iter().filter(|s| s.twin).count();
    if arrivals.len() != expected_arrivals && f.is_empty() {
        f.push(("phantom", format!("{} arrivals for {} sends ({} expected)", arrivals.len(), case.sends.len(), expected_arrivals)));
    }
    (f, obs)
}

const BITRATES: &[usize] = &[0, 8000, 1_000_000, 1_000_000_000];
const LATS: &[u64] = &[0, 3, 1_000_000, 250_000_000];

fn permutations(n: usize) -> Vec<Vec<usize>> {
    fn rec(cur: &mut Vec<usize>, used: &mut Vec<bool>, n: usize, out: &mut Vec<Vec<usize>>) {
        if cur.len() == n {
            out.push(cur.clone());
            return;
        }
        for i in 0..n {
            if !used[i] {
                used[i] = true;
                cur.push(i);
                rec(cur, used, n, out);
                cur.pop();
                used[i] = false;
            }
        }
    }
    let mut out = Vec::new();
    rec(&mut Vec::new(), &mut vec![false; n], n, &mut out);
    out
}

pub fn gen_case(rng: &mut Rng, k: usize, order: Option<(Vec<usize>, u32)>) -> Case {
    let layout = rng.below(4);
    let modules = match layout {
        0 => 1,
        1 => k + 1,
        _ => 2 + rng.usize_below(4),
    };
    let mut gates = Vec::new();
    let cluster = rng.chance(1, 3);
    for i in 0..=k {
        let owner = match layout {
            0 => 0,
            1 => i,
            _ => rng.usize_below(modules),
        };
        if cluster {
            // all gates of one module are one cluster "port" (size = number of its gates, fixed below)
            gates.push(GateDecl { owner, name: "port".into(), size: 0, pos: 0 });
        } else {
            gates.push(GateDecl { owner, name: format!("g{i}"), size: 1, pos: 0 });
        }
    }
    if cluster {
        for m in 0..modules {
            let idxs: Vec<usize> = (0..=k).filter(|i| gates[*i].owner == m).collect();
            // a cluster of size one is an ordinary gate: keep at least two positions
            let size = idxs.len().max(2);
            for (p, i) in idxs.iter().enumerate() {
                gates[*i].size = size;
                gates[*i].pos = p;
            }
        }
    }
    // long chains: mostly without channels, so that many hops are traversed within one event
    let (num, den) = if k > 16 && rng.chance(2, 3) { (1, 15) } else { (1, 2) };
    let hops: Vec<Hop> = (0..k)
        .map(|_| Hop {
            channel: if rng.chance(num, den) { Some((*rng.pick(BITRATES), *rng.pick(LATS))) } else { None },
            // a jitter well below the smallest transmission time in play would hide nothing; keep it small against the
            // latencies so that the window stays tight
            jitter_ns: if rng.chance(1, 4) { *rng.pick(&[1u64, 1_000, 50_000]) } else { 0 },
        })
        .collect();
    let (perm, orient) = match order {
        Some(o) => o,
        None => {
            let mut p: Vec<usize> = (0..k).collect();
            rng.shuffle(&mut p);
            (p, rng.next_u64() as u32)
        }
    };
    let mut calls = Vec::new();
    for (j, hop) in perm.iter().enumerate() {
        let forward = (orient >> (j % 32)) & 1 == 0;
        calls.push(ConnectCall { hop: *hop, forward, repeat: false });
        if rng.chance(1, 5) {
            // re-issue an earlier connect, either orientation
            let earlier = perm[rng.usize_below(j + 1)];
            calls.push(ConnectCall { hop: earlier, forward: rng.chance(1, 2), repeat: true });
        }
    }
    let mut sends = Vec::new();
    let n_sends = 1 + rng.usize_below(4);
    let mut t = rng.below(5) * 1000;
    for seq in 0..n_sends as u64 {
        let body = *rng.pick(&[0usize, 1, 448, 1436]);
        let delay_ns = if rng.chance(1, 3) { 1 + rng.below(2_000_000_000) } else { 0 };
        let echo = rng.chance(1, 4);
        let proxy = rng.chance(1, 5);
        let jitter_free = hops.iter().all(|h| h.channel.is_none() || h.jitter_ns == 0);
        let twin = !proxy && !echo && jitter_free && rng.chance(1, 3);
        sends.push(Send { time_ns: t, reverse: rng.chance(1, 2), body, delay_ns, seq, proxy, echo, twin });
        // uncontended: the next message is sent after this one has arrived (and come back)
        let one_way: u64 = hops.iter().filter(|h| h.channel.is_some()).map(|h| h.channel.map_or(0, |(b, l)| l + tx_ns(1500, b)) + h.jitter_ns).sum::<u64>();
        let gap: u64 = one_way * (1 + u64::from(echo) + u64::from(twin)) + delay_ns + 1 + rng.below(1000);
        t += gap;
    }
    let proxy_shutdown = rng.chance(1, 3);
    let raw_layout = if rng.chance(1, 3) { 1 + rng.below(3) as u8 } else { 0 };
    Case { modules, gates, hops, calls, sends, proxy_shutdown, raw_layout }
}

fn case_hash(c: &Case) -> u64 {
    let mut h = Hasher64::new();
    h.str(&serde_json::to_string(c).unwrap());
    h.finish()
}

pub fn case_json(case: &Case) -> Value {
    json!({"driver": "desmon", "sub": "c08", "case": serde_json::to_value(case).unwrap()})
}

pub fn cmd(args: &Args) -> Report {
    let mut rep = Report::new("C08");
    let mut rng = Rng::new(args.stream_seed("c08"));
    let cases = args.cases(720_000, 9_600_000);
    // enumerated part: every permutation of the connect calls for k <= 5, orientations exhaustive for k <= 4
    let mut enumerated: Vec<(usize, Vec<usize>, u32)> = Vec::new();
    if args.budget.is_none() {
        let mut idx = 0u64;
        for k in 1..=5usize {
            for perm in permutations(k) {
                let orients: Vec<u32> = if k <= 4 { (0..(1u32 << k)).collect() } else { vec![0, 0b10101, 0b01010, 0b11111, 0b00110, 0b11001] };
                for o in orients {
                    if idx % args.shards == args.shard {
                        enumerated.push((k, perm.clone(), o));
                    }
                    idx += 1;
                }
            }
        }
        rep.count("enumerated_connect_orders", enumerated.len() as u64);
    }
    let mut i = 0u64;
    let mut rep_cases = 0u64;
    loop {
        let case = if let Some((k, perm, o)) = enumerated.pop() {
            gen_case(&mut rng, k, Some((perm, o)))
        } else if i < cases {
            i += 1;
            let k = match rng.below(12) {
                0..=5 => 1 + rng.usize_below(6),
                6..=8 => 5 + rng.usize_below(8),
                9..=10 => 10 + rng.usize_below(11),
                // "chains of any length"
                _ => 17 + rng.usize_below(34),
            };
            gen_case(&mut rng, k, None)
        } else {
            break;
        };
        vcommon::mark_case(&format!("c08:{}:{}:{}", args.seed, args.shard, i));
        let (findings, obs) = execute(&case);
        rep.eval();
        if rep_cases % 200 == 1 {
            // a hop connected while the simulation runs, from the channel object of a hop that is transmitting: messages
            // sent over the new hop are delivered exactly once, after transmission time + latency
            rep.count("hops_connected_at_run_time_from_a_busy_channel", 1);
            for (kind, detail) in crate::c07::runtime_connect_probe(&mut rng).into_iter().filter(|(k, _)| *k != "busy-flag").take(1) {
                rep.violation(&format!("C08/run-time-hop-{kind}"), &detail, json!({"driver": "desmon", "sub": "c07", "runtime_connect_probe": true}));
            }
        }
        if rep_cases % 200 == 101 {
            // the two directions of a hop are independent: a message sent the other way while the hop transmits
            rep.count("hops_with_traffic_in_both_directions_at_once", 1);
            for (_, detail) in crate::c07::duplex_probe(&mut rng).into_iter().take(1) {
                rep.violation("C08/both-directions-at-once", &detail, json!({"driver": "desmon", "sub": "c07", "duplex_probe": true}));
            }
        }
        rep_cases += 1;
        rep.count("deliveries_checked", obs.deliveries);
        rep.count("chain_walks_checked", obs.walks);
        rep.count("connect_calls", obs.connects);
        rep.count("repeated_connect_calls", obs.repeats);
        rep.count("third_peer_rejections", obs.third_peer_rejections);
        rep.count("sends_by_a_third_module_through_a_gate_reference", obs.proxy_sends);
        rep.count("messages_echoed_back_over_the_chain", obs.echoes);
        rep.count("messages_sent_right_behind_another_and_queued_on_the_way", obs.twins);
        if case.proxy_shutdown && case.sends.iter().any(|s| s.proxy) {
            rep.count("chains_whose_third_module_shuts_down_in_the_event_of_its_last_send", 1);
        }
        rep.count("hops_total", case.hops.len() as u64);
        if case.raw_layout != 0 && case.gates.iter().any(|d| d.size > 1) {
            rep.count("chains_over_clusters_created_member_by_member_out_of_order", 1);
        }
        rep.max("max_hops", case.hops.len() as u64);
        // longest run of hops without a channel (all of them are traversed within one event)
        let mut run = 0u64;
        let mut best = 0u64;
        for h in &case.hops {
            run = if h.channel.is_none() { run + 1 } else { 0 };
            best = best.max(run);
        }
        rep.max("max_consecutive_hops_without_channel", best);
        if best > 16 {
            rep.count("chains_with_more_than_16_consecutive_hops_without_channel", 1);
        }
        if case.hops.iter().any(|h| h.channel.is_some()) {
            rep.count("chains_with_channels", 1);
        }
        if case.sends.iter().any(|s| s.reverse) {
            rep.count("chains_with_reverse_sends", 1);
        }
        if findings.is_empty() && case.hops.len() >= 2 {
            rep.nontrivial(case_hash(&case));
            if rep.wants_sample() && case.hops.len() == 3 {
                rep.sample(serde_json::to_value(&case).unwrap());
            }
        }
        let mut stop = false;
        for (kind, detail) in findings.into_iter().take(2) {
            if !rep.violation(&format!("C08/{kind}"), &detail, case_json(&case)) {
                stop = true;
            }
        }
        if stop {
            break;
        }
    }
    rep
}

pub fn replay(v: &Value) -> i32 {
    let case: Case = serde_json::from_value(v.get("case").expect("case").clone()).expect("case");
    println!("case: {}", serde_json::to_string_pretty(&case).unwrap());
    let (f, _) = execute(&case);
    if f.is_empty() {
        println!("no violation");
        0
    } else {
        for (k, d) in f {
            println!("VIOLATION reproduced: C08/{k}: {d}");
        }
        1
    }
}
