//! C09 — a shut-down module is inert until restart and restarts cleanly on time.
//!
//! Scenario: root `p0` (never shut down) with 1..3 victim children `p0.v{k}` and a receiver `p1`.
//! `p0` sends commands (shutdown / shutdown-and-restart), data messages over a delayed channel and
//! messages that pass through a transit gate of the victim on their way to `p1`; victims run a
//! ticker task, a self-message beat chain and optional killer tasks (shutdown requested from a task).
//! Every callback of every module logs into one global sequence. The reference is a small
//! discrete-event evaluation of the *statement* (down intervals, what must / must not be logged).

use des::net::channel::{ChannelDropBehaviour, ChannelMetrics};
use des::prelude::*;
use des::time::{sleep, sleep_until};
use serde::{Deserialize, Serialize};
use serde_json::{json, Value};
use std::cell::RefCell;
use std::collections::{BTreeMap, BTreeSet};
use vcommon::{Args, Hasher64, Report, Rng};

const MS: u64 = 1_000_000;
const K_BEAT: u16 = 41;
const K_CMD: u16 = 42;
const K_DATA: u16 = 43;
const K_TRANSIT: u16 = 44;
const K_PLAN: u16 = 45;
const K_PROBE: u16 = 46;
const K_HELLO: u16 = 47;
const K_BYE: u16 = 48;

#[derive(Debug, Clone, Copy, Serialize, Deserialize, PartialEq)]
pub enum Restart {
    Never,
    In(u64),
    At(u64),
}

#[derive(Debug, Clone, Copy, Serialize, Deserialize, PartialEq)]
pub struct Shutdown {
    pub at: u64,
    /// true: requested by a task of the victim, false: by a command message handled by the victim
    pub via_task: bool,
    pub restart: Restart,
    /// the requesting code first calls plain shutdown() and then, in the same event, the restart request: a restart
    /// time was given, so the module restarts
    #[serde(default)]
    pub plain_first: bool,
    /// the message of the shutdown event is sent after the request instead of before it (the module is up until the
    /// end of the event in which it requests its shutdown)
    #[serde(default)]
    pub bye_after_request: bool,
}

#[derive(Debug, Clone, Serialize, Deserialize, PartialEq)]
pub struct VictimPlan {
    pub stages: usize,
    pub tick_period: u64,
    pub beat_period: u64,
    pub shutdowns: Vec<Shutdown>,
    /// send instants of data messages (arrive after `data_latency`)
    pub data: Vec<u64>,
    /// send instants of messages passing through the victim's transit gate
    pub transit: Vec<u64>,
    pub data_latency: u64,
    pub transit_latency_a: u64,
    pub transit_latency_b: u64,
    /// the victim's tasks are created with spawn_local instead of tokio::spawn
    #[serde(default)]
    pub local_tasks: bool,
    /// the victim is not a hand-written module but an `AsyncFn` block: one task that receives the module's messages
    /// (no ticker / beat chain / resets visible; shutdowns are requested from inside that task on command messages)
    #[serde(default)]
    pub async_fn: bool,
    /// the victim installs a processing element (Module::stack) that logs every event the module's stack sees
    #[serde(default)]
    pub plugin: bool,
    /// Module::reset spawns a task that sleeps this long and then logs (0 = no such task)
    #[serde(default)]
    pub reset_task_ns: u64,
}

#[derive(Debug, Clone, Serialize, Deserialize, PartialEq)]
pub struct Case {
    pub victims: Vec<VictimPlan>,
    pub horizon: u64,
    pub probe_period: u64,
}

#[derive(Debug, Clone, Copy, PartialEq, Eq, PartialOrd, Ord, Serialize, Deserialize)]
pub enum Kind {
    Start(usize),
    Reset,
    Tick,
    Beat,
    Cmd(usize),
    KillerFired(usize),
    Data(usize),
    /// p1: transit message `seq` of victim `v` received
    TransitRecv(usize),
    /// p0: victim reported active by child()
    Probe(bool),
    /// p1: the message that incarnation `inc` of the victim sends from its first start-up stage
    Hello(u32),
    /// p1: the message the victim sends in the very event in which it requests shutdown `j` (sent while still up)
    Bye(usize),
    /// victim: its processing stack saw the start of an event (free entry: only its position relative to the down
    /// intervals is checked)
    PluginEvent,
    /// victim: the task spawned in Module::reset got past its sleep (free entry as well)
    ResetTask,
}

#[derive(Debug, Clone, Copy, PartialEq, Eq, Serialize, Deserialize)]
pub struct Entry {
    /// 0 = p0, 1 = p1, 2 + k = victim k
    pub module: usize,
    /// which victim an entry of p0 / p1 is about
    pub about: usize,
    pub inc: u32,
    pub kind: Kind,
    pub t: u64,
}

thread_local! {
    static LOG: RefCell<Vec<Entry>> = const { RefCell::new(Vec::new()) };
    /// set by the root's at_sim_end (the first module to be finished): at_sim_end is called for every module, shut
    /// down or not, and passes through the processing stack; that is not an event of the module
    static SIM_ENDING: std::cell::Cell<bool> = const { std::cell::Cell::new(false) };
}

fn now_ns() -> u64 {
    SimTime::now().as_nanos() as u64
}

fn st(ns: u64) -> SimTime {
    SimTime::from_duration(Duration::from_nanos(ns))
}

fn log(module: usize, about: usize, inc: u32, kind: Kind) {
    LOG.with(|l| l.borrow_mut().push(Entry { module, about, inc, kind, t: now_ns() }));
}

fn request_with(r: Restart, plain_first: bool) {
    if plain_first && r != Restart::Never {
        current().shutdown();
    }
    request(r);
}

fn request(r: Restart) {
    match r {
        Restart::Never => current().shutdown(),
        Restart::In(d) => current().shutdow_and_restart_in(Duration::from_nanos(d)),
        Restart::At(t) => current().shutdow_and_restart_at(st(t)),
    }
}

struct Victim {
    k: usize,
    plan: VictimPlan,
    horizon: u64,
    inc: u32,
}

struct Watch {
    k: usize,
}
impl des::net::processing::ProcessingElement for Watch {
    fn event_start(&mut self) {
        if !SIM_ENDING.with(std::cell::Cell::get) {
            log(2 + self.k, self.k, 0, Kind::PluginEvent);
        }
    }
}

impl Module for Victim {
    fn stack(&self, mut stack: des::net::processing::ProcessingStack) -> des::net::processing::ProcessingStack {
        if self.plan.plugin {
            stack.append(Watch { k: self.k });
        }
        stack
    }

    fn reset(&mut self) {
        log(2 + self.k, self.k, self.inc, Kind::Reset);
        self.inc += 1;
        if self.plan.reset_task_ns > 0 {
            let (k, inc, d) = (self.k, self.inc, self.plan.reset_task_ns);
            tokio::spawn(async move {
                sleep(Duration::from_nanos(d)).await;
                // (at_sim_end of a module that stays down drives its runtime once more: not an event of the module)
                if !SIM_ENDING.with(std::cell::Cell::get) {
                    log(2 + k, k, inc, Kind::ResetTask);
                }
            });
        }
    }

    fn num_sim_start_stages(&self) -> usize {
        self.plan.stages
    }

    fn at_sim_start(&mut self, stage: usize) {
        log(2 + self.k, self.k, self.inc, Kind::Start(stage));
        if stage != 0 {
            return;
        }
        // like a freshly started module: what is sent during start-up is delivered
        send(Message::default().kind(K_HELLO).id(self.inc as u16), "up");
        let (k, inc, horizon) = (self.k, self.inc, self.horizon);
        let p = self.plan.tick_period;
        let local = self.plan.local_tasks;
        let ticker = async move {
            while now_ns() + p <= horizon {
                sleep(Duration::from_nanos(p)).await;
                log(2 + k, k, inc, Kind::Tick);
            }
        };
        if local {
            tokio::task::spawn_local(ticker);
        } else {
            tokio::spawn(ticker);
        }
        if now_ns() + self.plan.beat_period <= horizon {
            schedule_in(Message::default().kind(K_BEAT), Duration::from_nanos(self.plan.beat_period));
        }
        for (j, sd) in self.plan.shutdowns.iter().enumerate() {
            if sd.via_task && sd.at > now_ns() {
                let sd = *sd;
                let killer = async move {
                    sleep_until(st(sd.at)).await;
                    log(2 + k, k, inc, Kind::KillerFired(j));
                    if sd.bye_after_request {
                        request_with(sd.restart, sd.plain_first);
                        send(Message::default().kind(K_BYE).id(j as u16), "up");
                    } else {
                        send(Message::default().kind(K_BYE).id(j as u16), "up");
                        request_with(sd.restart, sd.plain_first);
                    }
                };
                if local {
                    tokio::task::spawn_local(killer);
                } else {
                    tokio::spawn(killer);
                }
            }
        }
    }

    fn handle_message(&mut self, msg: Message) {
        let h = msg.header();
        match h.kind {
            K_BEAT => {
                log(2 + self.k, self.k, self.inc, Kind::Beat);
                if now_ns() + self.plan.beat_period <= self.horizon {
                    schedule_in(Message::default().kind(K_BEAT), Duration::from_nanos(self.plan.beat_period));
                }
            }
            K_CMD => {
                let j = h.id as usize;
                log(2 + self.k, self.k, self.inc, Kind::Cmd(j));
                let sd = self.plan.shutdowns[j];
                if sd.bye_after_request {
                    request_with(sd.restart, sd.plain_first);
                    send(Message::default().kind(K_BYE).id(j as u16), "up");
                } else {
                    send(Message::default().kind(K_BYE).id(j as u16), "up");
                    request_with(sd.restart, sd.plain_first);
                }
            }
            K_DATA => log(2 + self.k, self.k, self.inc, Kind::Data(h.id as usize)),
            _ => {}
        }
    }
}

/// (time, victim, what, index)
type PlanItem = (u64, usize, u16, usize);

struct Root {
    plan: Vec<PlanItem>,
    victims: usize,
    probe_period: u64,
    horizon: u64,
}

impl Module for Root {
    fn at_sim_end(&mut self) -> Result<(), RuntimeError> {
        SIM_ENDING.with(|s| s.set(true));
        Ok(())
    }

    fn at_sim_start(&mut self, _: usize) {
        for (i, (t, _, _, _)) in self.plan.iter().enumerate() {
            schedule_at(Message::default().kind(K_PLAN).id(i as u16), st(*t));
        }
        schedule_in(Message::default().kind(K_PROBE), Duration::from_nanos(self.probe_period));
    }

    fn handle_message(&mut self, msg: Message) {
        match msg.header().kind {
            K_PLAN => {
                let (_, v, what, idx) = self.plan[msg.header().id as usize];
                let gate = match what {
                    K_CMD => format!("cmd{v}"),
                    K_DATA => format!("data{v}"),
                    _ => format!("tr{v}"),
                };
                send(Message::default().kind(what).id(idx as u16), gate.as_str());
            }
            K_PROBE => {
                for v in 0..self.victims {
                    let up = current().child(&format!("v{v}")).is_ok();
                    log(0, v, 0, Kind::Probe(up));
                }
                if now_ns() + self.probe_period <= self.horizon {
                    schedule_in(Message::default().kind(K_PROBE), Duration::from_nanos(self.probe_period));
                }
            }
            _ => {}
        }
    }
}

struct Sink;
impl Module for Sink {
    fn handle_message(&mut self, msg: Message) {
        if msg.header().kind == K_BYE {
            let gate = msg.header().last_gate.as_ref().map_or(String::new(), |g| g.name().to_string());
            let v: usize = gate.trim_start_matches("hello").parse().unwrap_or(usize::MAX);
            log(1, v, 0, Kind::Bye(msg.header().id as usize));
        }
        if msg.header().kind == K_HELLO {
            let gate = msg.header().last_gate.as_ref().map_or(String::new(), |g| g.name().to_string());
            let v: usize = gate.trim_start_matches("hello").parse().unwrap_or(usize::MAX);
            log(1, v, 0, Kind::Hello(u32::from(msg.header().id)));
        }
        if msg.header().kind == K_TRANSIT {
            let gate = msg.header().last_gate.as_ref().map_or(String::new(), |g| g.name().to_string());
            let v: usize = gate.trim_start_matches("in").parse().unwrap_or(usize::MAX);
            log(1, v, 0, Kind::TransitRecv(msg.header().id as usize));
        }
    }
}

pub struct Observed {
    pub log: Vec<Entry>,
    pub result: Result<u64, String>,
    pub panicked: Option<String>,
}

pub fn execute(case: &Case) -> Observed {
    LOG.with(|l| l.borrow_mut().clear());
    SIM_ENDING.with(|s| s.set(false));
    let res = vcommon::catch(|| {
        let mut plan: Vec<PlanItem> = Vec::new();
        for (v, vp) in case.victims.iter().enumerate() {
            for (j, sd) in vp.shutdowns.iter().enumerate() {
                if !sd.via_task {
                    plan.push((sd.at, v, K_CMD, j));
                }
            }
            for (i, t) in vp.data.iter().enumerate() {
                plan.push((*t, v, K_DATA, i));
            }
            for (i, t) in vp.transit.iter().enumerate() {
                plan.push((*t, v, K_TRANSIT, i));
            }
        }
        let mut sim = Sim::new(());
        sim.node("p0", Root { plan, victims: case.victims.len(), probe_period: case.probe_period, horizon: case.horizon });
        sim.node("p1", Sink);
        let lat = |ns: u64| Some(Channel::new(ChannelMetrics::new(0, Duration::from_nanos(ns), Duration::ZERO, ChannelDropBehaviour::Queue(None))));
        for (v, vp) in case.victims.iter().enumerate() {
            let path = format!("p0.v{v}");
            if vp.async_fn {
                let plan = vp.clone();
                let starts = std::sync::Arc::new(std::sync::atomic::AtomicU32::new(0));
                sim.node(
                    path.as_str(),
                    des::net::blocks::AsyncFn::new(move |mut rx| {
                        let inc = starts.fetch_add(1, std::sync::atomic::Ordering::SeqCst);
                        let plan = plan.clone();
                        async move {
                            log(2 + v, v, inc, Kind::Start(0));
                            send(Message::default().kind(K_HELLO).id(inc as u16), "up");
                            while let Some(msg) = rx.recv().await {
                                let h = msg.header();
                                match h.kind {
                                    K_CMD => {
                                        let j = h.id as usize;
                                        log(2 + v, v, inc, Kind::Cmd(j));
                                        send(Message::default().kind(K_BYE).id(j as u16), "up");
                                        request_with(plan.shutdowns[j].restart, plan.shutdowns[j].plain_first);
                                    }
                                    K_DATA => log(2 + v, v, inc, Kind::Data(h.id as usize)),
                                    _ => {}
                                }
                            }
                        }
                    }),
                );
            } else {
                sim.node(path.as_str(), Victim { k: v, plan: vp.clone(), horizon: case.horizon, inc: 0 });
            }
            let c0 = sim.gate("p0", &format!("cmd{v}"));
            let c1 = sim.gate(path.as_str(), "cmd");
            c0.connect(c1, None);
            let d0 = sim.gate("p0", &format!("data{v}"));
            let d1 = sim.gate(path.as_str(), "data");
            d0.connect(d1, lat(vp.data_latency));
            let t0 = sim.gate("p0", &format!("tr{v}"));
            let t1 = sim.gate(path.as_str(), "pass");
            let t2 = sim.gate("p1", &format!("in{v}"));
            let h0 = sim.gate(path.as_str(), "up");
            let h1 = sim.gate("p1", &format!("hello{v}"));
            h0.connect(h1, None);
            t0.connect(t1.clone(), lat(vp.transit_latency_a));
            t1.connect(t2, lat(vp.transit_latency_b));
        }
        let rt = Builder::seeded(3).quiet().build(sim.freeze());
        match rt.run() {
            Ok((_, t, _)) => Ok(t.as_nanos() as u64),
            Err(e) => Err(format!("{e}")),
        }
    });
    let log = LOG.with(|l| std::mem::take(&mut *l.borrow_mut()));
    match res {
        Ok(result) => Observed { log, result, panicked: None },
        Err(p) => Observed { log, result: Err(String::new()), panicked: Some(p) },
    }
}

// -------------------------------------------------------------------------------------------------
// reference: evaluation of the statement
// -------------------------------------------------------------------------------------------------

#[derive(Debug, Clone, PartialEq, Eq, PartialOrd, Ord)]
struct Expect {
    module: usize,
    about: usize,
    kind: Kind,
    t: u64,
    /// incarnation that must log it (None: not checked)
    inc: Option<u32>,
}

pub struct Reference {
    mandatory: Vec<Expect>,
    /// entries at an instant that coincides with a shutdown request / restart of the victim:
    /// the statement leaves the order inside that instant open
    optional: Vec<Expect>,
    /// per victim: (request instant, restart instant) of the shutdowns that take effect
    pub downs: Vec<Vec<(u64, Option<u64>)>>,
    /// per victim: instants at which the order of events is open
    boundaries: Vec<BTreeSet<u64>>,
}

fn restart_time(sd: &Shutdown) -> Option<u64> {
    match sd.restart {
        Restart::Never => None,
        Restart::In(d) => Some(sd.at + d),
        Restart::At(t) => Some(t),
    }
}

pub fn reference(case: &Case) -> Reference {
    let mut r = Reference { mandatory: Vec::new(), optional: Vec::new(), downs: Vec::new(), boundaries: Vec::new() };
    for (v, vp) in case.victims.iter().enumerate() {
        let m = 2 + v;
        // --- which shutdown requests take effect: the victim must be up at the request instant
        let mut sds: Vec<(usize, Shutdown)> = vp.shutdowns.iter().copied().enumerate().collect();
        sds.sort_by_key(|(_, s)| s.at);
        let mut downs: Vec<(u64, Option<u64>)> = Vec::new();
        let mut effective: Vec<usize> = Vec::new();
        // the instant from which the victim is up again (None = down for good)
        let mut up_from: Option<u64> = Some(0);
        for (j, sd) in &sds {
            // a command is handled only while up, a killer task exists only in a live incarnation
            if up_from.is_some_and(|s| sd.at > s) {
                downs.push((sd.at, restart_time(sd)));
                effective.push(*j);
                up_from = restart_time(sd);
            }
        }
        let mut bounds: BTreeSet<u64> = BTreeSet::new();
        for (at, rt) in &downs {
            bounds.insert(*at);
            if let Some(rt) = rt {
                bounds.insert(*rt);
            }
        }
        // also the instants of requests that had no effect: they coincide with nothing that matters
        let up = |t: u64| -> bool { !downs.iter().any(|(at, rt)| t > *at && rt.map_or(true, |r| t < r)) };
        let inc_at = |t: u64| -> u32 { downs.iter().filter(|(at, _)| t > *at).count() as u32 };
        let mut push = |e: Expect, r: &mut Reference| {
            if bounds.contains(&e.t) {
                r.optional.push(Expect { inc: None, ..e });
            } else {
                r.mandatory.push(e);
            }
        };
        // --- incarnations
        let mut starts: Vec<(u64, u32)> = vec![(0, 0)];
        for (i, (_, rt)) in downs.iter().enumerate() {
            if let Some(rt) = rt {
                starts.push((*rt, i as u32 + 1));
            }
        }
        for (s, inc) in &starts {
            let end = downs.get(*inc as usize).map_or(u64::MAX, |(at, _)| *at);
            for stage in 0..vp.stages {
                // start-up stages are never optional: they must run exactly once at exactly the restart time
                r.mandatory.push(Expect { module: m, about: v, kind: Kind::Start(stage), t: *s, inc: Some(*inc) });
            }
            r.mandatory.push(Expect { module: 1, about: v, kind: Kind::Hello(*inc), t: *s, inc: None });
            // ticker task of this incarnation
            let mut t = *s;
            while t + vp.tick_period <= case.horizon {
                t += vp.tick_period;
                if t > end {
                    break;
                }
                let e = Expect { module: m, about: v, kind: Kind::Tick, t, inc: Some(*inc) };
                if t == end {
                    r.optional.push(Expect { inc: None, ..e });
                } else {
                    push(e, &mut r);
                }
            }
        }
        for (i, (at, _)) in downs.iter().enumerate() {
            if !vp.async_fn {
                r.mandatory.push(Expect { module: m, about: v, kind: Kind::Reset, t: *at, inc: Some(i as u32) });
            }
            let j = effective[i];
            let kind = if vp.shutdowns[j].via_task { Kind::KillerFired(j) } else { Kind::Cmd(j) };
            r.mandatory.push(Expect { module: m, about: v, kind, t: *at, inc: Some(i as u32) });
            // what the module sent in that event, while it was still up, is delivered
            r.mandatory.push(Expect { module: 1, about: v, kind: Kind::Bye(j), t: *at, inc: None });
        }
        // --- beat chains: a beat is a message, it is handled iff the victim is up when it arrives
        let mut beats: Vec<u64> = starts.iter().filter(|(s, _)| s + vp.beat_period <= case.horizon).map(|(s, _)| s + vp.beat_period).collect();
        while let Some(t) = beats.pop() {
            let boundary = bounds.contains(&t);
            if up(t) || boundary {
                push(Expect { module: m, about: v, kind: Kind::Beat, t, inc: Some(inc_at(t)) }, &mut r);
                if !boundary && t + vp.beat_period <= case.horizon {
                    beats.push(t + vp.beat_period);
                } else if boundary {
                    // open whether it was handled: everything that follows from it is open as well
                    let mut tt = t;
                    while tt + vp.beat_period <= case.horizon {
                        tt += vp.beat_period;
                        r.optional.push(Expect { module: m, about: v, kind: Kind::Beat, t: tt, inc: None });
                    }
                }
            }
        }
        // --- commands that had no effect but were handled while up are logged as well
        for (j, sd) in vp.shutdowns.iter().enumerate() {
            if !sd.via_task && !effective.contains(&j) && (up(sd.at) || bounds.contains(&sd.at)) {
                // cannot happen with the generator (a handled command always takes effect); kept for replays
                r.optional.push(Expect { module: m, about: v, kind: Kind::Cmd(j), t: sd.at, inc: None });
            }
        }
        // --- data messages
        for (i, s) in vp.data.iter().enumerate() {
            let a = s + vp.data_latency;
            if up(a) || bounds.contains(&a) {
                push(Expect { module: m, about: v, kind: Kind::Data(i), t: a, inc: Some(inc_at(a)) }, &mut r);
            }
        }
        // --- transit messages: dropped iff the victim is down when they are at its gate
        for (i, s) in vp.transit.iter().enumerate() {
            let pass = s + vp.transit_latency_a;
            let arrive = pass + vp.transit_latency_b;
            let e = Expect { module: 1, about: v, kind: Kind::TransitRecv(i), t: arrive, inc: None };
            if bounds.contains(&pass) {
                r.optional.push(e);
            } else if up(pass) {
                r.mandatory.push(e);
            }
        }
        // --- probes of the parent
        let mut t = case.probe_period;
        while t <= case.horizon {
            if bounds.contains(&t) {
                r.optional.push(Expect { module: 0, about: v, kind: Kind::Probe(true), t, inc: None });
                r.optional.push(Expect { module: 0, about: v, kind: Kind::Probe(false), t, inc: None });
            } else {
                r.mandatory.push(Expect { module: 0, about: v, kind: Kind::Probe(up(t)), t, inc: None });
            }
            t += case.probe_period;
        }
        r.downs.push(downs);
        r.boundaries.push(bounds);
    }
    r
}

pub type Finding = (&'static str, String);

pub fn check(case: &Case, o: &Observed) -> Vec<Finding> {
    let mut f: Vec<Finding> = Vec::new();
    if let Some(p) = &o.panicked {
        f.push(("run-panicked", format!("the simulation unwound: {p}")));
        return f;
    }
    if let Err(e) = &o.result {
        f.push(("run-error", format!("run() returned an error: {e}")));
        return f;
    }
    let r = reference(case);
    // multiset comparison
    let key = |m: usize, a: usize, k: Kind, t: u64| (m, a, k, t);
    let mut mand: BTreeMap<(usize, usize, Kind, u64), (usize, Option<u32>)> = BTreeMap::new();
    for e in &r.mandatory {
        let x = mand.entry(key(e.module, e.about, e.kind, e.t)).or_insert((0, e.inc));
        x.0 += 1;
    }
    let mut opt: BTreeMap<(usize, usize, Kind, u64), usize> = BTreeMap::new();
    for e in &r.optional {
        *opt.entry(key(e.module, e.about, e.kind, e.t)).or_insert(0) += 1;
    }
    let mut seen: BTreeMap<(usize, usize, Kind, u64), usize> = BTreeMap::new();
    for e in o.log.iter().filter(|e| !matches!(e.kind, Kind::PluginEvent | Kind::ResetTask)) {
        // the last probe may lie beyond the horizon bookkeeping of the reference
        *seen.entry(key(e.module, e.about, e.kind, e.t)).or_insert(0) += 1;
    }
    let name = |m: usize| match m {
        0 => "p0".to_string(),
        1 => "p1".to_string(),
        k => format!("p0.v{}", k - 2),
    };
    // free entries: nothing of the victim may show strictly inside a down interval
    for e in o.log.iter().filter(|e| matches!(e.kind, Kind::PluginEvent | Kind::ResetTask)) {
        let inside = r.downs[e.about].iter().any(|(at, rt)| e.t > *at && rt.map_or(true, |x| e.t < x));
        if inside {
            let what = if e.kind == Kind::PluginEvent {
                "its processing stack ran an event"
            } else {
                "a task it spawned in Module::reset ran"
            };
            f.push((
                if e.kind == Kind::PluginEvent { "stack-ran-while-down" } else { "task-ran-while-down-or-twice" },
                format!("{} was shut down but {what} at {} ns; down intervals (request, restart): {:?}", name(e.module), e.t, r.downs[e.about]),
            ));
            return f;
        }
    }
    for (k, n) in &seen {
        let allowed = mand.get(k).map_or(0, |x| x.0) + opt.get(k).copied().unwrap_or(0);
        if *n > allowed {
            let (m, a, kind, t) = *k;
            let downs = &r.downs[a];
            let detail = format!(
                "{} logged {:?} (about victim {a}) at {t} ns {n} time(s), the statement allows {allowed}; down intervals of the victim (request, restart): {:?}",
                name(m), kind, downs
            );
            let label = match kind {
                Kind::Tick | Kind::KillerFired(_) => "task-ran-while-down-or-twice",
                Kind::Beat | Kind::Data(_) | Kind::Cmd(_) => "message-handled-while-down-or-twice",
                Kind::TransitRecv(_) => "transit-through-down-module",
                Kind::Hello(_) => "unexpected-startup-message",
                Kind::Bye(_) => "unexpected-last-message",
                Kind::Start(_) => "unexpected-start",
                Kind::Reset => "unexpected-reset",
                Kind::Probe(_) => "active-flag",
                Kind::PluginEvent | Kind::ResetTask => unreachable!(),
            };
            f.push((label, detail));
            if f.len() >= 3 {
                return f;
            }
        }
    }
    for (k, (n, _)) in &mand {
        let have = seen.get(k).copied().unwrap_or(0);
        if have < *n {
            let (m, a, kind, t) = *k;
            let label = match kind {
                Kind::Start(_) => "restart-missing-or-late",
                Kind::Reset => "reset-missing",
                Kind::Probe(_) => "active-flag",
                Kind::TransitRecv(_) => "other-module-affected",
                Kind::Hello(_) => "startup-send-lost",
                Kind::Bye(_) => "send-before-shutdown-lost",
                _ => "not-handled-while-up",
            };
            f.push((
                label,
                format!(
                    "{} must log {:?} (about victim {a}) at {t} ns ({n}x) but logged it {have}x; down intervals of the victim (request, restart): {:?}",
                    name(m), kind, r.downs[a]
                ),
            ));
            if f.len() >= 3 {
                return f;
            }
        }
    }
    // incarnations: an entry must come from the incarnation alive at that time
    for e in &o.log {
        if let Some((_, Some(inc))) = mand.get(&key(e.module, e.about, e.kind, e.t)) {
            if e.module >= 2 && e.inc != *inc {
                f.push((
                    "wrong-incarnation",
                    format!("{} logged {:?} at {} ns from incarnation {}, alive at that time is incarnation {inc}", name(e.module), e.kind, e.t, e.inc),
                ));
                break;
            }
        }
    }
    // sequence: between a reset and the following start(0) the victim logs nothing; start stages in order
    for v in 0..case.victims.len() {
        if case.victims[v].async_fn {
            // no reset entries to anchor on; the multiset comparison above covers these victims
            continue;
        }
        let m = 2 + v;
        let mut down_since: Option<usize> = None;
        let mut next_stage = 0usize;
        for (i, e) in o.log.iter().enumerate().filter(|(_, e)| e.module == m && !matches!(e.kind, Kind::PluginEvent | Kind::ResetTask)) {
            match e.kind {
                Kind::Reset => {
                    down_since = Some(i);
                    next_stage = 0;
                }
                Kind::Start(s) => {
                    if s != next_stage {
                        f.push(("start-order", format!("{} ran start stage {s} at {} ns, expected stage {next_stage}", name(m), e.t)));
                    }
                    next_stage = s + 1;
                    down_since = None;
                }
                _ => {
                    if let Some(since) = down_since {
                        f.push((
                            "ran-after-reset",
                            format!("{} logged {:?} at {} ns (log position {i}) after its reset at log position {since} and before any restart", name(m), e.kind, e.t),
                        ));
                        break;
                    }
                }
            }
        }
    }
    f
}

// -------------------------------------------------------------------------------------------------
// generator
// -------------------------------------------------------------------------------------------------

/// time classes (in ms, modulo 10) keep unrelated instants apart: ticks / beats 0 (3 after a restart),
/// shutdown requests 1, restart delays 2 (restart instants 3), data arrivals 5, transit passes 7, probes 9
pub fn gen_case(rng: &mut Rng, coincide: bool) -> Case {
    let n = 1 + rng.usize_below(3);
    let horizon = (200 + rng.below(600)) * 10 * MS;
    let mut victims = Vec::new();
    for _ in 0..n {
        let cycles = rng.usize_below(4);
        let mut shutdowns = Vec::new();
        let mut t = 0u64;
        for _ in 0..cycles {
            let at = t + (2 + rng.below(60)) * 10 * MS + MS;
            if at >= horizon {
                break;
            }
            let d = (rng.below(40)) * 10 * MS + 2 * MS;
            let restart = match rng.below(5) {
                0 => Restart::Never,
                1..=2 => Restart::In(d),
                _ => Restart::At(at + d),
            };
            shutdowns.push(Shutdown { at, via_task: rng.chance(1, 2), restart, plain_first: rng.chance(1, 4), bye_after_request: rng.chance(1, 3) });
            match restart {
                Restart::Never => break,
                _ => t = at + d,
            }
        }
        // a request while the victim is down (must have no effect)
        if let Some(first) = shutdowns.first().copied() {
            if let Some(rt) = restart_time(&first) {
                if rt > first.at + 30 * MS && rng.chance(1, 3) {
                    shutdowns.push(Shutdown { at: first.at + 20 * MS, via_task: rng.chance(1, 2), restart: Restart::In(12 * MS), plain_first: false, bye_after_request: false });
                }
            }
        }
        let data_latency = *rng.pick(&[0u64, 10 * MS, 250 * MS]);
        let ta = *rng.pick(&[0u64, 10 * MS, 300 * MS]);
        let tb = *rng.pick(&[0u64, 20 * MS, 150 * MS]);
        let n_data = rng.usize_below(25);
        let n_transit = rng.usize_below(25);
        let mut data: Vec<u64> = (0..n_data).map(|_| rng.below(horizon / (10 * MS)) * 10 * MS + 5 * MS).collect();
        let mut transit: Vec<u64> = (0..n_transit).map(|_| rng.below(horizon / (10 * MS)) * 10 * MS + 7 * MS).collect();
        // messages in flight at the shutdown / restart instants
        for sd in &shutdowns {
            if rng.chance(1, 2) && sd.at > data_latency + 10 * MS {
                data.push(sd.at - data_latency + 4 * MS);
            }
            if rng.chance(1, 2) && sd.at > ta + 10 * MS && ta > 0 {
                // sent while up, at the gate while down
                transit.push(sd.at - MS + 7 * MS - (10 * MS).min(ta) + 0);
            }
        }
        if coincide {
            // deliberately on the boundaries: arrival exactly at a request / restart instant
            for sd in &shutdowns {
                if sd.at >= data_latency && rng.chance(1, 2) {
                    data.push(sd.at - data_latency);
                }
                if let Some(rt) = restart_time(sd) {
                    if rt >= ta && rng.chance(1, 2) {
                        transit.push(rt - ta);
                    }
                    if rt >= data_latency && rng.chance(1, 2) {
                        data.push(rt - data_latency);
                    }
                }
            }
        }
        data.retain(|t| t + data_latency < horizon);
        transit.retain(|t| t + ta + tb < horizon);
        data.truncate(60);
        transit.truncate(60);
        let async_fn = rng.chance(1, 4);
        if async_fn {
            for sd in shutdowns.iter_mut() {
                sd.via_task = false;
            }
        }
        victims.push(VictimPlan {
            stages: if async_fn { 1 } else { 1 + rng.usize_below(3) },
            // an AsyncFn victim has neither ticker nor beat chain
            tick_period: if async_fn { horizon + 1 } else { (1 + rng.below(12)) * 10 * MS },
            beat_period: if async_fn { horizon + 1 } else { (1 + rng.below(15)) * 10 * MS },
            shutdowns,
            data,
            transit,
            data_latency,
            transit_latency_a: ta,
            transit_latency_b: tb,
            local_tasks: rng.chance(1, 3),
            async_fn,
            plugin: !async_fn && rng.chance(1, 3),
            reset_task_ns: if !async_fn && rng.chance(1, 4) { *rng.pick(&[MS, 10 * MS + 6 * MS, 100 * MS + 6 * MS]) } else { 0 },
        });
    }
    // two victims sharing the same shutdown / restart instants
    if victims.len() >= 2 && rng.chance(1, 3) {
        let mut s = victims[0].shutdowns.clone();
        if victims[1].async_fn {
            for sd in s.iter_mut() {
                sd.via_task = false;
            }
        }
        victims[1].shutdowns = s;
    }
    Case { victims, horizon, probe_period: (3 + rng.below(10)) * 10 * MS + 9 * MS }
}

fn case_hash(c: &Case) -> u64 {
    let mut h = Hasher64::new();
    h.str(&serde_json::to_string(c).unwrap());
    h.finish()
}

pub fn case_json(case: &Case) -> Value {
    json!({"driver": "desmon", "sub": "c09", "case": serde_json::to_value(case).unwrap()})
}

pub fn cmd(args: &Args) -> Report {
    let mut rep = Report::new("C09");
    let mut rng = Rng::new(args.stream_seed("c09"));
    let cases = args.cases(240_000, 3_200_000);
    for i in 0..cases {
        let coincide = i % 5 == 4;
        let case = gen_case(&mut rng, coincide);
        vcommon::mark_case(&format!("c09:{}:{}:{}", args.seed, args.shard, i));
        let o = execute(&case);
        let findings = check(&case, &o);
        let r = reference(&case);
        rep.eval();
        rep.count("log_entries_checked", o.log.len() as u64);
        let effective: usize = r.downs.iter().map(Vec::len).sum();
        rep.count("shutdowns_effective", effective as u64);
        rep.count("restarts", r.downs.iter().flatten().filter(|(_, rt)| rt.is_some()).count() as u64);
        rep.count("entries_at_boundary_instants_left_open", r.optional.len() as u64);
        let mut dropped_data = 0;
        let mut dropped_transit = 0;
        for (v, vp) in case.victims.iter().enumerate() {
            let up = |t: u64| !r.downs[v].iter().any(|(at, rt)| t > *at && rt.map_or(true, |x| t < x));
            dropped_data += vp.data.iter().filter(|s| !up(**s + vp.data_latency)).count();
            dropped_transit += vp.transit.iter().filter(|s| !up(**s + vp.transit_latency_a)).count();
            // in flight at the request instant: sent while up, due while down
            for s in &vp.transit {
                if up(*s) && !up(*s + vp.transit_latency_a) {
                    rep.count("transit_messages_in_flight_at_shutdown", 1);
                }
            }
            for sd in &vp.shutdowns {
                if sd.via_task {
                    rep.count("shutdown_requests_from_tasks", 1);
                } else {
                    rep.count("shutdown_requests_from_handlers", 1);
                }
            }
        }
        rep.count("async_fn_victims_restarted", case.victims.iter().zip(&r.downs).filter(|(v, d)| v.async_fn && d.iter().any(|(_, rt)| rt.is_some())).count() as u64);
        rep.count("victims_with_spawn_local_tasks_shut_down", case.victims.iter().zip(&r.downs).filter(|(v, d)| v.local_tasks && !d.is_empty()).count() as u64);
        rep.count("data_messages_due_while_down", dropped_data as u64);
        rep.count("shutdown_events_sending_a_message_after_the_request", case.victims.iter().flat_map(|v| v.shutdowns.iter()).filter(|s| s.bye_after_request).count() as u64);
        rep.count("restart_requests_issued_right_after_a_plain_shutdown_in_the_same_event", case.victims.iter().flat_map(|v| v.shutdowns.iter()).filter(|s| s.plain_first && s.restart != Restart::Never).count() as u64);
        rep.count("events_seen_by_victim_processing_stacks", o.log.iter().filter(|e| e.kind == Kind::PluginEvent).count() as u64);
        rep.count("victims_spawning_a_sleeping_task_in_reset", case.victims.iter().zip(&r.downs).filter(|(v, d)| v.reset_task_ns > 0 && !d.is_empty()).count() as u64);
        rep.count("transit_messages_due_while_down", dropped_transit as u64);
        if coincide {
            rep.count("cases_with_deliberate_coincidences", 1);
        }
        if findings.is_empty() && effective > 0 {
            rep.nontrivial(case_hash(&case));
            if rep.wants_sample() && case.victims.len() == 1 && case.victims[0].data.len() + case.victims[0].transit.len() <= 6 {
                rep.sample(json!({"case": serde_json::to_value(&case).unwrap(), "down_intervals": format!("{:?}", r.downs), "log_entries": o.log.len()}));
            }
        }
        let mut stop = false;
        for (kind, detail) in findings.into_iter().take(2) {
            if !rep.violation(&format!("C09/{kind}"), &detail, case_json(&case)) {
                stop = true;
            }
        }
        if stop {
            break;
        }
    }
    rep
}

pub fn replay(v: &Value) -> i32 {
    let case: Case = serde_json::from_value(v.get("case").expect("case").clone()).expect("case");
    println!("case: {}", serde_json::to_string_pretty(&case).unwrap());
    let o = execute(&case);
    for e in o.log.iter().filter(|e| !matches!(e.kind, Kind::Probe(_))) {
        println!("  {e:?}");
    }
    let f = check(&case, &o);
    if f.is_empty() {
        println!("no violation");
        0
    } else {
        for (k, d) in f {
            println!("VIOLATION reproduced: C09/{k}: {d}");
        }
        1
    }
}
