//! C16 — message bodies are type safe, value preserving and measured consistently.
//!
//! A shadow model `(type tag, value, expected length, clonable)` per message over a zoo of body
//! types (primitives, strings, options / results, collections, boxed, derived structs / enums,
//! generic derived, zero sized, non-clonable, non-debuggable, layout-compatible twins). Random
//! operation sequences (set / with_body / clone / try_clone / can_cast / try_content /
//! try_content_mut / try_cast / format / drop with matching and non-matching types) are checked
//! after every operation; tracked values must be dropped exactly once; `Message::length()` is
//! compared with a hand-written reference size and with what a channel charges.

use des::net::channel::{ChannelDropBehaviour, ChannelMetrics};
use des::net::message::Body;
use des::prelude::*;
use serde_json::{json, Value};
use std::any::Any;
use std::cell::RefCell;
use std::collections::{BTreeMap, BTreeSet, BinaryHeap, HashMap, HashSet, LinkedList, VecDeque};
use std::net::{IpAddr, Ipv4Addr, Ipv6Addr, SocketAddr};
use std::fmt::Debug;
use vcommon::tracked::{self, Tracked};
use vcommon::{Args, Hasher64, Report, Rng};

const HEADER: usize = 64;

// ---- the zoo -----------------------------------------------------------------------------------------

#[derive(Debug, Clone, PartialEq)]
pub struct TwinA(u32);
impl MessageBody for TwinA {
    fn byte_len(&self) -> usize {
        4
    }
}
#[derive(Debug, Clone, PartialEq)]
pub struct TwinB(u32);
impl MessageBody for TwinB {
    fn byte_len(&self) -> usize {
        4
    }
}

#[derive(Debug, Clone, PartialEq, MessageBody)]
pub struct Named {
    a: u8,
    b: String,
    c: Vec<u16>,
}

#[derive(Debug, Clone, PartialEq, MessageBody)]
pub struct Tuple(u64, Option<u32>);

/// field names that look unused to the compiler (reserved / padding bytes of a wire format) still count
#[derive(Debug, Clone, PartialEq, MessageBody)]
pub struct Framed {
    kind: u8,
    _reserved: u16,
    _pad: [u8; 4],
    _cause: String,
}

#[derive(Debug, Clone, PartialEq, MessageBody)]
pub enum FramedEnum {
    Short { _flags: u8 },
    Long { id: u32, _trailer: Vec<u8> },
}

#[derive(Debug, Clone, PartialEq, MessageBody)]
pub struct Unit;

#[derive(Debug, Clone, PartialEq, MessageBody)]
pub enum Enumd {
    Nothing,
    Pair(u32, u8),
    Record { x: String, y: Option<u64> },
    Nested(Named),
}

#[derive(Debug, Clone, PartialEq, MessageBody)]
pub struct Generic<T>(T, u8);

#[derive(Debug, Clone, PartialEq)]
pub struct TrA(Tracked);
impl MessageBody for TrA {
    fn byte_len(&self) -> usize {
        (self.0.value % 50) as usize
    }
}
#[derive(Debug, Clone, PartialEq)]
pub struct TrB(Tracked);
impl MessageBody for TrB {
    fn byte_len(&self) -> usize {
        (self.0.value % 50) as usize
    }
}
/// not Clone
#[derive(Debug, PartialEq)]
pub struct NonClone(Tracked);
impl MessageBody for NonClone {
    fn byte_len(&self) -> usize {
        7
    }
}
/// not Debug
#[derive(Clone, PartialEq)]
pub struct NoDebug(u16, u8);
impl MessageBody for NoDebug {
    fn byte_len(&self) -> usize {
        std::mem::size_of::<NoDebug>()
    }
}

/// zero sized with a destructor: creations and drops are counted by the registry
#[derive(Debug, PartialEq)]
pub struct ZstTok;
impl ZstTok {
    fn create() -> Self {
        tracked::anon_created("body-ZstTok");
        ZstTok
    }
}
impl Clone for ZstTok {
    fn clone(&self) -> Self {
        ZstTok::create()
    }
}
impl Drop for ZstTok {
    fn drop(&mut self) {
        tracked::anon_dropped("body-ZstTok");
    }
}
impl MessageBody for ZstTok {
    fn byte_len(&self) -> usize {
        0
    }
}

#[derive(Clone, Copy, PartialEq, Eq, Debug)]
pub enum How {
    /// set_content / with_content (needs Clone + Debug)
    Plain,
    NonClonable,
    NonDebugable,
}

pub trait Zoo: MessageBody + Any + Send + PartialEq + Sized {
    const NAME: &'static str;
    const HOW: How;
    fn make(v: u64) -> Self;
    /// hand-written reference for the body's declared byte length
    fn ref_len(v: u64) -> usize;
    fn put(msg: &mut Message, value: Self);
    fn body(value: Self) -> Option<Body>;
    /// `Body::new_with_len`: the caller declares the length (clonable + debuggable types only)
    fn body_with_len(_value: Self, _len: usize) -> Option<Body> {
        None
    }
    /// `Message::from_parts(header, Some(value))` (clonable + debuggable types only)
    fn from_parts(_id: u16, _value: Self) -> Option<Message> {
        None
    }
}

fn s_of(v: u64) -> String {
    "x".repeat((v % 23) as usize) + &v.to_string()
}
fn s_len(v: u64) -> usize {
    (v % 23) as usize + v.to_string().len()
}

macro_rules! plain {
    ($t:ty, $name:expr, |$v:ident| $make:expr, |$w:ident| $len:expr) => {
        impl Zoo for $t {
            const NAME: &'static str = $name;
            const HOW: How = How::Plain;
            fn make($v: u64) -> Self {
                $make
            }
            fn ref_len($w: u64) -> usize {
                $len
            }
            fn put(msg: &mut Message, value: Self) {
                msg.set_content(value);
            }
            fn body(value: Self) -> Option<Body> {
                Some(Body::new(value))
            }
            fn body_with_len(value: Self, len: usize) -> Option<Body> {
                Some(Body::new_with_len(value, len))
            }
            fn from_parts(id: u16, value: Self) -> Option<Message> {
                let header = Message::default().id(id).header().clone();
                Some(Message::from_parts(header, Some(value)))
            }
        }
    };
}

plain!(u8, "u8", |v| v as u8, |_v| 1);
plain!(u32, "u32", |v| v as u32, |_v| 4);
plain!(i32, "i32", |v| v as i32, |_v| 4);
plain!(f32, "f32", |v| (v % 1000) as f32 + 0.5, |_v| 4);
plain!([u8; 4], "[u8;4]", |v| (v as u32).to_le_bytes(), |_v| 4);
plain!(u64, "u64", |v| v, |_v| 8);
plain!(u128, "u128", |v| u128::from(v) << 7, |_v| 16);
plain!(bool, "bool", |v| v % 2 == 0, |_v| 1);
plain!(char, "char", |v| char::from_u32(0x41 + (v % 500) as u32).unwrap_or('x'), |_v| 4);
plain!(String, "String", |v| s_of(v), |v| s_len(v));
plain!(Vec<u8>, "Vec<u8>", |v| s_of(v).into_bytes(), |v| s_len(v));
plain!(Option<u32>, "Option<u32>", |v| if v % 3 == 0 { None } else { Some(v as u32) }, |v| if v % 3 == 0 { 0 } else { 4 });
plain!(Result<u8, String>, "Result<u8,String>", |v| if v % 2 == 0 { Ok(v as u8) } else { Err(s_of(v)) }, |v| if v % 2 == 0 { 1 } else { s_len(v) });
plain!(Box<u64>, "Box<u64>", |v| Box::new(v), |_v| 8);
fn deque_of(v: u64) -> VecDeque<u16> {
    // built with push_back / push_front and (for some values) FIFO use, so that the ring buffer wraps around
    let mut d: VecDeque<u16> = VecDeque::with_capacity(4);
    for i in 0..(v % 9) {
        if (v >> i) & 1 == 0 {
            d.push_back(i as u16);
        } else {
            d.push_front(i as u16);
        }
    }
    if v % 3 == 0 {
        for k in 0..(v % 7) {
            if let Some(x) = d.pop_front() {
                d.push_back(x.wrapping_add(k as u16));
            }
        }
    }
    d
}
plain!(VecDeque<u16>, "VecDeque<u16>", |v| deque_of(v), |v| 2 * (v % 9) as usize);
plain!(BTreeMap<u8, u32>, "BTreeMap<u8,u32>", |v| (0..(v % 6)).map(|i| (i as u8, v as u32)).collect(), |v| 5 * (v % 6) as usize);
plain!((), "()", |_v| (), |_v| 0);
plain!(TwinA, "TwinA(u32)", |v| TwinA(v as u32), |_v| 4);
plain!(TwinB, "TwinB(u32)", |v| TwinB(v as u32), |_v| 4);
plain!(Named, "derive struct Named", |v| Named { a: v as u8, b: s_of(v), c: (0..(v % 5)).map(|i| i as u16).collect() }, |v| 1 + s_len(v) + 2 * (v % 5) as usize);
plain!(Tuple, "derive struct Tuple", |v| Tuple(v, if v % 2 == 0 { Some(1) } else { None }), |v| 8 + if v % 2 == 0 { 4 } else { 0 });
plain!(Unit, "derive struct Unit", |_v| Unit, |_v| 0);
plain!(Framed, "derive struct with _-prefixed fields", |v| Framed { kind: v as u8, _reserved: v as u16, _pad: [v as u8; 4], _cause: s_of(v) }, |v| 1 + 2 + 4 + s_len(v));
plain!(
    FramedEnum,
    "derive enum with _-prefixed fields",
    |v| if v % 2 == 0 { FramedEnum::Short { _flags: v as u8 } } else { FramedEnum::Long { id: v as u32, _trailer: s_of(v).into_bytes() } },
    |v| if v % 2 == 0 { 1 } else { 4 + s_len(v) }
);
plain!(
    Enumd,
    "derive enum",
    |v| match v % 4 {
        0 => Enumd::Nothing,
        1 => Enumd::Pair(v as u32, 1),
        2 => Enumd::Record { x: s_of(v), y: if v % 8 == 2 { Some(v) } else { None } },
        _ => Enumd::Nested(Named { a: 1, b: s_of(v), c: vec![1, 2] }),
    },
    |v| match v % 4 {
        0 => 0,
        1 => 5,
        2 => s_len(v) + if v % 8 == 2 { 8 } else { 0 },
        _ => 1 + s_len(v) + 4,
    }
);
plain!(Generic<u16>, "derive generic<u16>", |v| Generic(v as u16, 3), |_v| 3);
plain!(Generic<String>, "derive generic<String>", |v| Generic(s_of(v), 3), |v| s_len(v) + 1);
plain!(TrA, "TrA(tracked)", |v| TrA(Tracked::with_value("body-TrA", v)), |v| (v % 50) as usize);
plain!(TrB, "TrB(tracked)", |v| TrB(Tracked::with_value("body-TrB", v)), |v| (v % 50) as usize);
plain!(ZstTok, "ZstTok(zero sized, counted drops)", |_v| ZstTok::create(), |_v| 0);


/// a BinaryHeap has no PartialEq: compared through its sorted content
#[derive(Debug, Clone, MessageBody)]
pub struct Heap(BinaryHeap<u16>);
impl PartialEq for Heap {
    fn eq(&self, other: &Self) -> bool {
        self.0.clone().into_sorted_vec() == other.0.clone().into_sorted_vec()
    }
}

const WORDS: &[&str] = &["", "a", "bcd", "efghij", "käse", "0123456789abcdef"];
const SLICES: &[&[u16]] = &[&[], &[1], &[1, 2, 3], &[9; 17]];
type Addrs = (IpAddr, SocketAddr, Duration, SimTime);
type Ints = (u16, usize, i8, i16, i64, i128, isize, f64);
type Eight = (u8, u16, u32, u64, String, bool, char, ());

fn ip_of(v: u64) -> IpAddr {
    if v % 2 == 0 {
        IpAddr::V4(Ipv4Addr::new(10, 0, (v >> 8) as u8, v as u8))
    } else {
        IpAddr::V6(Ipv6Addr::new(0xfe80, 0, 0, 0, 0, 0, (v >> 16) as u16, v as u16))
    }
}

// collections whose elements have differing declared lengths (s_of(v + i) has (v + i) % 23 + digits bytes)
plain!([String; 3], "[String;3]", |v| [s_of(v), s_of(v / 3), s_of(v / 7)], |v| s_len(v) + s_len(v / 3) + s_len(v / 7));
plain!(
    [Option<u32>; 4],
    "[Option<u32>;4]",
    |v| [0u64, 1, 2, 3].map(|i| if (v >> i) & 1 == 0 { None } else { Some(i as u32) }),
    |v| 4 * (0..4).filter(|i| (v >> i) & 1 == 1).count()
);
plain!(LinkedList<String>, "LinkedList<String>", |v| (0..(v % 5)).map(|i| s_of(v + i)).collect(), |v| (0..(v % 5)).map(|i| s_len(v + i)).sum());
plain!(HashMap<u8, String>, "HashMap<u8,String>", |v| (0..(v % 40)).map(|i| (i as u8, s_of(v + i))).collect(), |v| (0..(v % 40)).map(|i| 1 + s_len(v + i)).sum());
plain!(HashSet<String>, "HashSet<String>", |v| (0..(v % 37)).map(|i| s_of(v + i)).collect(), |v| (0..(v % 37)).map(|i| s_len(v + i)).sum());
plain!(BTreeSet<String>, "BTreeSet<String>", |v| (0..(v % 7)).map(|i| s_of(v + i)).collect(), |v| (0..(v % 7)).map(|i| s_len(v + i)).sum());
plain!(Heap, "derive struct Heap(BinaryHeap<u16>)", |v| Heap((0..(v % 11)).map(|i| (v as u16).wrapping_mul(i as u16 + 1)).collect()), |v| 2 * (v % 11) as usize);
plain!(
    Addrs,
    "(IpAddr,SocketAddr,Duration,SimTime)",
    |v| (ip_of(v), SocketAddr::new(ip_of(v / 2), v as u16), Duration::from_nanos(v), SimTime::from_duration(Duration::from_nanos(v / 3))),
    |v| (if v % 2 == 0 { 4 } else { 16 }) + (if (v / 2) % 2 == 0 { 6 } else { 18 }) + 16 + 16
);
plain!(Vec<String>, "Vec<String>", |v| (0..(v % 6)).map(|i| s_of(v + 5 * i)).collect(), |v| (0..(v % 6)).map(|i| s_len(v + 5 * i)).sum());
plain!(&'static str, "&'static str", |v| WORDS[(v % WORDS.len() as u64) as usize], |v| WORDS[(v % WORDS.len() as u64) as usize].len());
plain!(&'static [u16], "&'static [u16]", |v| SLICES[(v % SLICES.len() as u64) as usize], |v| 2 * SLICES[(v % SLICES.len() as u64) as usize].len());
plain!((u8,), "(u8,)", |v| (v as u8,), |_v| 1);
plain!(Eight, "8-tuple", |v| (v as u8, v as u16, v as u32, v, s_of(v), v % 2 == 0, 'x', ()), |v| 1 + 2 + 4 + 8 + s_len(v) + 1 + 4);
plain!(Ints, "(u16,usize,i8,i16,i64,i128,isize,f64)", |v| (v as u16, v as usize, v as i8, v as i16, v as i64, i128::from(v), v as isize, v as f64), |_v| 2 + 8 + 1 + 2 + 8 + 16 + 8 + 8);

impl Zoo for NonClone {
    const NAME: &'static str = "NonClone(tracked)";
    const HOW: How = How::NonClonable;
    fn make(v: u64) -> Self {
        NonClone(Tracked::with_value("body-NonClone", v))
    }
    fn ref_len(_: u64) -> usize {
        7
    }
    fn put(msg: &mut Message, value: Self) {
        msg.set_content_non_clonable(value);
    }
    fn body(value: Self) -> Option<Body> {
        Some(Body::new_non_clonable(value))
    }
}

impl Zoo for NoDebug {
    const NAME: &'static str = "NoDebug";
    const HOW: How = How::NonDebugable;
    fn make(v: u64) -> Self {
        NoDebug(v as u16, 9)
    }
    fn ref_len(_: u64) -> usize {
        std::mem::size_of::<NoDebug>()
    }
    fn put(msg: &mut Message, value: Self) {
        msg.set_content_non_debugable(value);
    }
    fn body(value: Self) -> Option<Body> {
        Some(Body::new_non_debugable(value))
    }
}

pub const N_TYPES: usize = 46;

macro_rules! dispatch {
    ($tag:expr, $f:ident, $($arg:expr),*) => {
        match $tag {
            0 => $f::<u8>($($arg),*),
            1 => $f::<u32>($($arg),*),
            2 => $f::<i32>($($arg),*),
            3 => $f::<f32>($($arg),*),
            4 => $f::<[u8; 4]>($($arg),*),
            5 => $f::<u64>($($arg),*),
            6 => $f::<u128>($($arg),*),
            7 => $f::<bool>($($arg),*),
            8 => $f::<char>($($arg),*),
            9 => $f::<String>($($arg),*),
            10 => $f::<Vec<u8>>($($arg),*),
            11 => $f::<Option<u32>>($($arg),*),
            12 => $f::<Result<u8, String>>($($arg),*),
            13 => $f::<Box<u64>>($($arg),*),
            14 => $f::<VecDeque<u16>>($($arg),*),
            15 => $f::<BTreeMap<u8, u32>>($($arg),*),
            16 => $f::<()>($($arg),*),
            17 => $f::<TwinA>($($arg),*),
            18 => $f::<TwinB>($($arg),*),
            19 => $f::<Named>($($arg),*),
            20 => $f::<Tuple>($($arg),*),
            21 => $f::<Unit>($($arg),*),
            22 => $f::<Enumd>($($arg),*),
            23 => $f::<Generic<u16>>($($arg),*),
            24 => $f::<Generic<String>>($($arg),*),
            25 => $f::<TrA>($($arg),*),
            26 => $f::<TrB>($($arg),*),
            27 => $f::<NonClone>($($arg),*),
            28 => $f::<NoDebug>($($arg),*),
            29 => $f::<ZstTok>($($arg),*),
            30 => $f::<[String; 3]>($($arg),*),
            31 => $f::<[Option<u32>; 4]>($($arg),*),
            32 => $f::<LinkedList<String>>($($arg),*),
            33 => $f::<HashMap<u8, String>>($($arg),*),
            34 => $f::<HashSet<String>>($($arg),*),
            35 => $f::<BTreeSet<String>>($($arg),*),
            36 => $f::<Heap>($($arg),*),
            37 => $f::<Addrs>($($arg),*),
            38 => $f::<Vec<String>>($($arg),*),
            39 => $f::<&'static str>($($arg),*),
            40 => $f::<&'static [u16]>($($arg),*),
            41 => $f::<(u8,)>($($arg),*),
            42 => $f::<Eight>($($arg),*),
            43 => $f::<Ints>($($arg),*),
            44 => $f::<Framed>($($arg),*),
            _ => $f::<FramedEnum>($($arg),*),
        }
    };
}

fn name_of<T: Zoo>() -> &'static str {
    T::NAME
}
fn how_of<T: Zoo>() -> How {
    T::HOW
}

// ---- shadow model ---------------------------------------------------------------------------------------

#[derive(Debug, Clone, PartialEq)]
pub struct Shadow {
    pub tag: usize,
    pub v: u64,
    pub len: usize,
    pub id: u16,
}

pub type Finding = (&'static str, String);

fn fresh<T: Zoo>(v: u64, id: u16, via: u64) -> (Message, usize) {
    let value = T::make(v);
    let len = T::ref_len(v);
    let mut msg = Message::default().id(id);
    match via % 5 {
        0 => T::put(&mut msg, value),
        1 => msg.set_body(T::body(value).expect("body")),
        3 if T::HOW == How::Plain => {
            // the length is declared by the caller, independent of the value
            let declared = (via / 5 % 1500) as usize;
            msg.set_body(T::body_with_len(value, declared).expect("plain types have new_with_len"));
            return (msg, declared);
        }
        4 if T::HOW == How::Plain => msg = T::from_parts(id, value).expect("plain types have from_parts"),
        _ => msg = msg.with_body(T::body(value).expect("body")),
    }
    (msg, len)
}

fn verify<T: Zoo>(msg: &Message, sh: &Shadow) -> Option<Finding> {
    if msg.length() != HEADER + sh.len {
        return Some(("length", format!("message with body {} (value seed {}): length() = {}, header 64 + declared byte length {} = {}", T::NAME, sh.v, msg.length(), sh.len, HEADER + sh.len)));
    }
    if msg.header().id != sh.id {
        return Some(("header", format!("message header id {} changed to {}", sh.id, msg.header().id)));
    }
    if !msg.can_cast::<T>() {
        return Some(("own-type-rejected", format!("body of type {} cannot be cast to its own type", T::NAME)));
    }
    match msg.try_content::<T>() {
        Some(x) if *x == T::make(sh.v) => None,
        Some(_) => Some(("value", format!("body of type {} no longer equals the value that was put in (value seed {})", T::NAME, sh.v))),
        None => Some(("own-type-rejected", format!("try_content::<{}> on its own type returned None", T::NAME))),
    }
}

/// probes the message with a foreign type U: everything must fail and leave the message intact
fn probe_foreign<U: Zoo>(msg: &mut Message) -> Option<Finding> {
    if msg.can_cast::<U>() {
        return Some(("foreign-type-accepted", format!("can_cast::<{}>() is true for a body of another type", U::NAME)));
    }
    if msg.try_content::<U>().is_some() {
        return Some(("foreign-type-accepted", format!("try_content::<{}>() reinterpreted a body of another type", U::NAME)));
    }
    if msg.try_content_mut::<U>().is_some() {
        return Some(("foreign-type-accepted", format!("try_content_mut::<{}>() reinterpreted a body of another type", U::NAME)));
    }
    None
}

fn cast_foreign<U: Zoo>(msg: Message) -> Result<Message, Finding> {
    match msg.try_cast::<U>() {
        Ok(_) => Err(("foreign-type-accepted", format!("try_cast::<{}>() succeeded on a body of another type", U::NAME))),
        Err(m) => Ok(m),
    }
}

fn cast_own<T: Zoo>(msg: Message, sh: &Shadow) -> Option<Finding> {
    match msg.try_cast::<T>() {
        Ok((value, header)) => {
            if value != T::make(sh.v) {
                return Some(("value", format!("try_cast::<{}> returned a value different from what was put in (value seed {})", T::NAME, sh.v)));
            }
            if header.id != sh.id {
                return Some(("header", format!("try_cast returned header id {}, expected {}", header.id, sh.id)));
            }
            None
        }
        Err(_) => Some(("own-type-rejected", format!("try_cast::<{}> failed on its own type", T::NAME))),
    }
}

fn mutate_in_place<T: Zoo>(msg: &mut Message) -> bool {
    msg.try_content_mut::<T>().is_some()
}

#[derive(Default)]
pub struct Obs {
    pub ops: u64,
    pub created: u64,
    pub clones: u64,
    pub failed_clones: u64,
    pub own_casts: u64,
    pub foreign_probes: u64,
    pub foreign_casts: u64,
    pub twin_probes: u64,
    pub replaced: u64,
    pub formats: u64,
}

fn is_twin(a: usize, b: usize) -> bool {
    // layout compatible pairs: u32 / i32 / f32 / [u8;4] / TwinA / TwinB, String / Vec<u8>, TrA / TrB, the zero sized types
    let g = |x: usize| match x {
        1 | 2 | 3 | 4 | 17 | 18 => 1,
        9 | 10 => 2,
        25 | 26 => 3,
        16 | 21 | 29 => 4,
        _ => 0,
    };
    a != b && g(a) != 0 && g(a) == g(b)
}

/// one random operation sequence; returns the rendered operations for the replay on failure
pub fn run_sequence(rng: &mut Rng, len: usize, obs: &mut Obs) -> (Vec<String>, Option<Finding>) {
    tracked::reset();
    let mut pool: Vec<(Message, Shadow)> = Vec::new();
    let mut ops: Vec<String> = Vec::new();
    let mut next_id = 1u16;
    macro_rules! fail {
        ($f:expr) => {
            if let Some(f) = $f {
                // do not run destructors of possibly corrupt bodies
                for (m, _) in pool.drain(..) {
                    std::mem::forget(m);
                }
                return (ops, Some(f));
            }
        };
    }
    for _ in 0..len {
        obs.ops += 1;
        let choice = if pool.is_empty() { 0 } else { rng.below(12) };
        match choice {
            0 | 1 => {
                let tag = rng.usize_below(N_TYPES);
                let (v, via) = (rng.next_u64() % 100_000, rng.next_u64());
                let id = next_id;
                next_id = next_id.wrapping_add(1);
                let (msg, l) = dispatch!(tag, fresh, v, id, via);
                ops.push(format!("new {} value-seed {v} via {} (0 set_content*, 1 set_body, 2 with_body, 3 Body::new_with_len, 4 Message::from_parts)", dispatch!(tag, name_of,), via % 5));
                let sh = Shadow { tag, v, len: l, id };
                fail!(dispatch!(tag, verify, &msg, &sh));
                pool.push((msg, sh));
                obs.created += 1;
            }
            2 => {
                // replace the content of an existing message (same or other type); the old value is dropped
                let i = rng.usize_below(pool.len());
                let tag = if rng.chance(1, 2) { pool[i].1.tag } else { rng.usize_below(N_TYPES) };
                let v = rng.next_u64() % 100_000;
                let id = pool[i].1.id;
                fn replace<T: Zoo>(msg: &mut Message, v: u64) -> usize {
                    T::put(msg, T::make(v));
                    T::ref_len(v)
                }
                let l = dispatch!(tag, replace, &mut pool[i].0, v);
                ops.push(format!("replace content of #{i} by {} value-seed {v}", dispatch!(tag, name_of,)));
                pool[i].1 = Shadow { tag, v, len: l, id };
                let (m, sh) = (&pool[i].0, pool[i].1.clone());
                fail!(dispatch!(tag, verify, m, &sh));
                obs.replaced += 1;
            }
            3 | 4 => {
                let i = rng.usize_below(pool.len());
                let sh = pool[i].1.clone();
                let clonable = dispatch!(sh.tag, how_of,) != How::NonClonable;
                ops.push(format!("try_clone #{i} ({})", dispatch!(sh.tag, name_of,)));
                match pool[i].0.try_clone() {
                    Some(c) => {
                        if !clonable {
                            fail!(Some(("clone", "try_clone of a non-clonable body returned a message".to_string())));
                        }
                        fail!(dispatch!(sh.tag, verify, &c, &sh));
                        pool.push((c, sh.clone()));
                        obs.clones += 1;
                    }
                    None => {
                        if clonable {
                            fail!(Some(("clone", format!("try_clone of a clonable body ({}) returned None", dispatch!(sh.tag, name_of,)))));
                        }
                        obs.failed_clones += 1;
                    }
                }
                // the original is intact either way
                let m = &pool[i].0;
                fail!(dispatch!(sh.tag, verify, m, &sh));
            }
            5 | 6 => {
                // probe with a foreign type, preferring layout-compatible twins
                let i = rng.usize_below(pool.len());
                let sh = pool[i].1.clone();
                let mut u = rng.usize_below(N_TYPES);
                if rng.chance(1, 2) {
                    if let Some(t) = (0..N_TYPES).find(|t| is_twin(sh.tag, *t) && rng.chance(1, 2)) {
                        u = t;
                    }
                }
                if u == sh.tag {
                    continue;
                }
                if is_twin(sh.tag, u) {
                    obs.twin_probes += 1;
                }
                ops.push(format!("probe #{i} ({}) as {}", dispatch!(sh.tag, name_of,), dispatch!(u, name_of,)));
                fail!(dispatch!(u, probe_foreign, &mut pool[i].0));
                let m = &pool[i].0;
                fail!(dispatch!(sh.tag, verify, m, &sh));
                obs.foreign_probes += 1;
            }
            7 => {
                // failing try_cast gives the message back intact
                let i = rng.usize_below(pool.len());
                let (msg, sh) = pool.swap_remove(i);
                let mut u = rng.usize_below(N_TYPES);
                if let Some(t) = (0..N_TYPES).find(|t| is_twin(sh.tag, *t) && rng.chance(1, 2)) {
                    u = t;
                }
                if u == sh.tag {
                    pool.push((msg, sh));
                    continue;
                }
                ops.push(format!("try_cast #{i} ({}) as {}", dispatch!(sh.tag, name_of,), dispatch!(u, name_of,)));
                match dispatch!(u, cast_foreign, msg) {
                    Ok(m) => {
                        fail!(dispatch!(sh.tag, verify, &m, &sh));
                        pool.push((m, sh));
                        obs.foreign_casts += 1;
                    }
                    Err(f) => {
                        fail!(Some(f));
                    }
                }
            }
            8 => {
                let i = rng.usize_below(pool.len());
                let (msg, sh) = pool.swap_remove(i);
                ops.push(format!("try_cast #{i} to its own type {}", dispatch!(sh.tag, name_of,)));
                fail!(dispatch!(sh.tag, cast_own, msg, &sh));
                obs.own_casts += 1;
            }
            9 => {
                let i = rng.usize_below(pool.len());
                let sh = pool[i].1.clone();
                ops.push(format!("try_content_mut #{i} as own type"));
                if !dispatch!(sh.tag, mutate_in_place, &mut pool[i].0) {
                    fail!(Some(("own-type-rejected", "try_content_mut on the own type returned None".to_string())));
                }
            }
            10 => {
                let i = rng.usize_below(pool.len());
                ops.push(format!("format #{i}"));
                let s = format!("{} {:?}", pool[i].0, pool[i].0);
                if !s.contains(&format!("{} bytes", pool[i].0.length())) {
                    fail!(Some(("format", format!("Display of the message does not state its length: {s}"))));
                }
                obs.formats += 1;
            }
            _ => {
                let i = rng.usize_below(pool.len());
                ops.push(format!("drop #{i}"));
                drop(pool.swap_remove(i));
            }
        }
    }
    drop(pool);
    let s = tracked::summary();
    if !s.clean() {
        let kind = if s.double_drops.is_empty() { "value-leaked" } else { "dropped-twice" };
        return (ops, Some((kind, format!("tracked body values: {}", s.describe()))));
    }
    (ops, None)
}

// ---- what channels charge ------------------------------------------------------------------------------

thread_local! {
    static ARRIVALS: RefCell<Vec<(u16, u64)>> = const { RefCell::new(Vec::new()) };
}

struct Tx {
    msgs: Vec<Option<Message>>,
}
impl Module for Tx {
    fn at_sim_start(&mut self, _: usize) {
        for (i, _) in self.msgs.iter().enumerate() {
            schedule_at(Message::default().kind(99).id(i as u16), SimTime::from_duration(Duration::from_secs(10 * (i as u64 + 1))));
        }
    }
    fn handle_message(&mut self, m: Message) {
        if m.header().kind == 99 {
            if let Some(out) = self.msgs[m.header().id as usize].take() {
                send(out, "out");
            }
        }
    }
}
struct Rx;
impl Module for Rx {
    fn handle_message(&mut self, m: Message) {
        ARRIVALS.with(|a| a.borrow_mut().push((m.header().id, SimTime::now().as_nanos() as u64)));
    }
}

/// one message of every zoo type over a 8000 bit/s channel: arrival = send + length * 1 ms
pub fn channel_charge(rng: &mut Rng) -> (Vec<Finding>, u64) {
    ARRIVALS.with(|a| a.borrow_mut().clear());
    tracked::reset();
    let mut expect: Vec<(u16, u64, &'static str, usize)> = Vec::new();
    let mut msgs = Vec::new();
    for tag in 0..N_TYPES {
        let v = rng.next_u64() % 100_000;
        let (msg, l) = dispatch!(tag, fresh, v, tag as u16, 0);
        let sent = 10_000_000_000u64 * (tag as u64 + 1);
        expect.push((tag as u16, sent + (HEADER + l) as u64 * 1_000_000, dispatch!(tag, name_of,), HEADER + l));
        msgs.push(Some(msg));
    }
    let r = vcommon::catch(|| {
        let mut sim = Sim::new(());
        sim.node("tx", Tx { msgs });
        sim.node("rx", Rx);
        let a = sim.gate("tx", "out");
        let b = sim.gate("rx", "in");
        a.connect(b, Some(Channel::new(ChannelMetrics::new(8000, Duration::ZERO, Duration::ZERO, ChannelDropBehaviour::Queue(None)))));
        Builder::seeded(1).quiet().build(sim.freeze()).run().is_ok()
    });
    let mut f = Vec::new();
    if r != Ok(true) {
        f.push(("channel-run", format!("the transmission rig failed: {r:?}")));
        return (f, 0);
    }
    let arr = ARRIVALS.with(|a| std::mem::take(&mut *a.borrow_mut()));
    for (id, t, name, len) in &expect {
        match arr.iter().find(|(i, _)| i == id) {
            Some((_, at)) if at == t => {}
            other => f.push((
                "channel-charge",
                format!("body {name}: length() = {len} bytes must take {} ms on a 8000 bit/s channel, observed arrival {:?} ns, expected {t} ns", len, other.map(|x| x.1)),
            )),
        }
    }
    (f, expect.len() as u64)
}

/// Two distinct types with the same `std::any::type_name` (items of the same name in two block scopes of one
/// function, alone and inside a generic wrapper): a body of the one must not be readable as the other.
fn same_name_probe() -> Vec<Finding> {
    let mut f = Vec::new();
    let (msg, wrapped) = {
        #[derive(Debug, Clone, PartialEq)]
        struct Same(u64);
        impl MessageBody for Same {
            fn byte_len(&self) -> usize {
                8
            }
        }
        (Message::default().with_content(Same(0x4048_0000_0000_0000)), Message::default().with_content(Some(Same(7))))
    };
    {
        #[derive(Debug, Clone, PartialEq)]
        struct Same(f64);
        impl MessageBody for Same {
            fn byte_len(&self) -> usize {
                8
            }
        }
        if msg.can_cast::<Same>() || msg.try_content::<Same>().is_some() {
            f.push(("foreign-type-accepted", "a body is readable as a different type that has the same type name (same-named items in two block scopes)".to_string()));
        }
        if wrapped.can_cast::<Option<Same>>() || wrapped.try_content::<Option<Same>>().is_some() {
            f.push(("foreign-type-accepted", "a body Option<T> is readable as Option<U> where U is a different type with the same type name as T".to_string()));
        }
        match msg.try_cast::<Same>() {
            Ok(_) => f.push(("foreign-type-accepted", "try_cast succeeded for a different type that has the same type name".to_string())),
            Err(m) => {
                if m.length() != HEADER + 8 {
                    f.push(("failed-cast-damaged", "a failed cast returned a message with another length".to_string()));
                }
            }
        }
    }
    f
}

pub fn cmd(args: &Args) -> Report {
    let mut rep = Report::new("C16");
    let mut rng = Rng::new(args.stream_seed("c16"));
    let cases = args.cases(4_000_000, 36_000_000);
    let max_len = args.extra_u64("len").unwrap_or(60) as usize;
    let mut obs = Obs::default();
    for i in 0..cases {
        let seed = rng.next_u64();
        let len = 3 + rng.usize_below(max_len);
        vcommon::mark_case(&format!("c16:{}:{}:{}", args.seed, args.shard, i));
        let mut r = Rng::new(seed);
        let (ops, finding) = run_sequence(&mut r, len, &mut obs);
        rep.eval();
        if finding.is_none() && ops.len() >= 5 {
            let mut h = Hasher64::new();
            h.u64(seed).u64(len as u64);
            rep.nontrivial(h.finish());
            if rep.wants_sample() && ops.len() <= 12 {
                rep.sample(json!({"sequence_seed": seed.to_string(), "ops": ops}));
            }
        }
        if let Some((kind, detail)) = finding {
            let case = json!({"driver": "desmon", "sub": "c16", "sequence_seed": seed.to_string(), "len": len, "ops": ops});
            if !rep.violation(&format!("C16/{kind}"), &detail, case) {
                break;
            }
        }
        if i % 500 == 0 {
            rep.count("same_named_type_probes", 1);
            for (kind, detail) in same_name_probe().into_iter().take(1) {
                rep.violation(&format!("C16/{kind}"), &detail, json!({"driver": "desmon", "sub": "c16", "same_name_probe": true}));
            }
        }
        if i % 2000 == 0 && !args.extra.contains_key("nochannel") {
            let (f, n) = channel_charge(&mut rng);
            rep.count("channel_transmissions_timed", n);
            for (kind, detail) in f.into_iter().take(2) {
                rep.violation(&format!("C16/{kind}"), &detail, json!({"driver": "desmon", "sub": "c16", "channel_charge": true}));
            }
        }
    }
    rep.count("operations", obs.ops);
    rep.count("messages_created", obs.created);
    rep.count("clones_checked", obs.clones);
    rep.count("try_clone_of_non_clonable", obs.failed_clones);
    rep.count("casts_to_own_type", obs.own_casts);
    rep.count("probes_with_foreign_type", obs.foreign_probes);
    rep.count("failed_casts_message_returned_intact", obs.foreign_casts);
    rep.count("probes_between_layout_twins", obs.twin_probes);
    rep.count("content_replacements", obs.replaced);
    rep.count("formats", obs.formats);
    rep.count("body_types", 0);
    rep.max("body_types", N_TYPES as u64);
    rep
}

pub fn replay(v: &Value) -> i32 {
    if v.get("same_name_probe").is_some() {
        let f = same_name_probe();
        for (k, d) in &f {
            println!("VIOLATION reproduced: C16/{k}: {d}");
        }
        return i32::from(!f.is_empty());
    }
    if v.get("channel_charge").is_some() {
        let mut rng = Rng::new(7);
        let (f, _) = channel_charge(&mut rng);
        for (k, d) in &f {
            println!("VIOLATION reproduced: C16/{k}: {d}");
        }
        return i32::from(!f.is_empty());
    }
    let seed: u64 = v.get("sequence_seed").and_then(Value::as_str).and_then(|s| s.parse().ok()).expect("sequence_seed");
    let len = v.get("len").and_then(Value::as_u64).expect("len") as usize;
    let mut obs = Obs::default();
    let mut r = Rng::new(seed);
    let (ops, f) = run_sequence(&mut r, len, &mut obs);
    for o in &ops {
        println!("  {o}");
    }
    match f {
        None => {
            println!("no violation");
            0
        }
        Some((k, d)) => {
            println!("VIOLATION reproduced: C16/{k}: {d}");
            1
        }
    }
}
