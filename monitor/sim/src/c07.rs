//! C07 — channels account for every message with the specified delay, busy and drop rules.
//!
//! Rig: module `tx` offers messages to the channel on `tx.out -> rx.in` at generated instants
//! (bursts inside one handler, gaps below / at / above the transmission time); every offer and
//! every arrival is logged at the module boundary. The log is checked offline against a small
//! reference automaton of one channel direction that uses exact integer arithmetic.

use des::net::channel::{ChannelDropBehaviour, ChannelMetrics};
use des::prelude::*;
use serde::{Deserialize, Serialize};
use serde_json::{json, Value};
use std::cell::RefCell;
use std::collections::{HashMap, VecDeque};
use vcommon::{Args, Hasher64, Report, Rng};

const HEADER: usize = 64;
const TIMER: u16 = 7;

#[derive(Debug, Clone, Copy, Serialize, Deserialize, PartialEq)]
pub enum Policy {
    Drop,
    Queue(Option<usize>),
}

#[derive(Debug, Clone, Serialize, Deserialize, PartialEq)]
pub struct Case {
    pub bitrate: usize,
    pub latency_ns: u64,
    pub jitter_ns: u64,
    pub policy: Policy,
    /// offer instants (ns) with the body sizes offered inside that one handler call
    pub offers: Vec<(u64, Vec<usize>)>,
    /// true: all timers are scheduled at start; false: each timer schedules the next
    pub timers_upfront: bool,
    /// the connect call is issued from the receiving gate (the sending direction then uses the other of the two
    /// channel instances a connection holds)
    #[serde(default)]
    pub reverse_connect: bool,
    /// 0: no probe; 1: a probe is attached to the sending direction at start-up; 2: it is additionally replaced from
    /// the handler - before every second burst and after the first message of every burst, i.e. while the channel
    /// transmits and holds queued messages. Every transmission must be seen by exactly one probe, when it starts.
    #[serde(default)]
    pub probe: u8,
}

impl Case {
    fn bucket_ns(&self) -> u64 {
        let horizon = self.offers.last().map_or(0, |o| o.0)
            + self.offers.iter().flat_map(|o| o.1.iter()).map(|b| tx_ns(b + HEADER, self.bitrate)).sum::<u64>()
            + self.latency_ns
            + self.jitter_ns;
        if horizon / 2_500_000 <= 200_000 {
            2_500_000 // the default
        } else {
            horizon / 100_000
        }
    }
}

#[derive(Debug, Clone)]
struct Pay {
    seq: u64,
    size: usize,
}

impl MessageBody for Pay {
    fn byte_len(&self) -> usize {
        self.size
    }
}

#[derive(Debug, Clone)]
enum Rec {
    Offer {
        seq: u64,
        t: u64,
        len: usize,
        busy_before: bool,
        finish_before: u64,
        busy_after: bool,
        finish_after: u64,
        queued_before: usize,
        queued_after: usize,
        acc_after: usize,
        actual_after: usize,
    },
    Arrive {
        seq: u64,
        t: u64,
        last_gate_ok: bool,
    },
    End {
        busy: bool,
        queued: usize,
        acc: usize,
    },
    Probed {
        seq: u64,
        t: u64,
        /// which attachment saw it
        generation: u32,
    },
}

struct SeqProbe {
    generation: u32,
}
impl des::net::channel::ChannelProbe for SeqProbe {
    fn on_message_transmit(&mut self, _: &ChannelMetrics, msg: &Message) {
        if let Some(p) = msg.try_content::<Pay>() {
            let generation = self.generation;
            LOG.with(|l| l.borrow_mut().push(Rec::Probed { seq: p.seq, t: now_ns(), generation }));
        }
    }
}

thread_local! {
    static LOG: RefCell<Vec<Rec>> = const { RefCell::new(Vec::new()) };
}

fn now_ns() -> u64 {
    SimTime::now().as_nanos() as u64
}

struct Tx {
    case: Case,
    next_seq: u64,
    probes: u32,
}

impl Tx {
    fn fire(&mut self, idx: usize) {
        // chained timers: with `reverse_connect` the next timer is armed before the burst is offered, otherwise after it
        let chain_next = !self.case.timers_upfront && idx + 1 < self.case.offers.len();
        if chain_next && self.case.reverse_connect {
            let t = self.case.offers[idx + 1].0;
            schedule_at(Message::default().kind(TIMER).id((idx + 1) as u16), SimTime::from_duration(Duration::from_nanos(t)));
        }
        let sizes = self.case.offers[idx].1.clone();
        let gate = current().gate("out", 0).expect("gate out");
        let ch = gate.channel().expect("channel on out");
        if self.case.probe == 2 && idx % 2 == 1 {
            self.probes += 1;
            ch.attach_probe(SeqProbe { generation: self.probes });
        }
        for (k, size) in sizes.into_iter().enumerate() {
            if self.case.probe == 2 && k == 1 {
                self.probes += 1;
                ch.attach_probe(SeqProbe { generation: self.probes });
            }
            let seq = self.next_seq;
            self.next_seq += 1;
            let (busy_before, fin_before, q_before, _, _) = ch.verif_state();
            let busy_api = ch.is_busy();
            let msg = Message::default().with_content(Pay { seq, size });
            let len = msg.length();
            send(msg, "out");
            let (busy_after, fin_after, q_after, acc_after, actual_after) = ch.verif_state();
            LOG.with(|l| {
                l.borrow_mut().push(Rec::Offer {
                    seq,
                    t: now_ns(),
                    len,
                    busy_before: busy_before && busy_api,
                    finish_before: fin_before.as_nanos() as u64,
                    busy_after,
                    finish_after: ch.transmission_finish_time().as_nanos() as u64,
                    queued_before: q_before,
                    queued_after: q_after,
                    acc_after,
                    actual_after,
                });
            });
            let _ = fin_after;
        }
        if chain_next && !self.case.reverse_connect {
            let t = self.case.offers[idx + 1].0;
            schedule_at(Message::default().kind(TIMER).id((idx + 1) as u16), SimTime::from_duration(Duration::from_nanos(t)));
        }
    }
}

impl Module for Tx {
    fn at_sim_start(&mut self, _: usize) {
        if self.case.probe > 0 {
            let ch = current().gate("out", 0).expect("gate out").channel().expect("channel on out");
            ch.attach_probe(SeqProbe { generation: 0 });
        }
        if self.case.timers_upfront {
            for (i, (t, _)) in self.case.offers.iter().enumerate() {
                schedule_at(Message::default().kind(TIMER).id(i as u16), SimTime::from_duration(Duration::from_nanos(*t)));
            }
        } else if let Some((t, _)) = self.case.offers.first() {
            schedule_at(Message::default().kind(TIMER).id(0), SimTime::from_duration(Duration::from_nanos(*t)));
        }
    }

    fn handle_message(&mut self, msg: Message) {
        if msg.header().kind == TIMER {
            let idx = msg.header().id as usize;
            self.fire(idx);
        }
    }

    fn at_sim_end(&mut self) -> Result<(), RuntimeError> {
        let gate = current().gate("out", 0).expect("gate out");
        let ch = gate.channel().expect("channel on out");
        let (busy, _, queued, acc, _) = ch.verif_state();
        LOG.with(|l| l.borrow_mut().push(Rec::End { busy, queued, acc }));
        Ok(())
    }
}

struct Rx;

impl Module for Rx {
    fn handle_message(&mut self, msg: Message) {
        let last_gate_ok = msg.header().last_gate.as_ref().is_some_and(|g| g.name() == "in");
        if let Some(p) = msg.try_content::<Pay>() {
            LOG.with(|l| l.borrow_mut().push(Rec::Arrive { seq: p.seq, t: now_ns(), last_gate_ok }));
        }
    }
}

pub struct Observed {
    log: Vec<Rec>,
    run_ok: bool,
    panicked: Option<String>,
    end_ns: u64,
}

pub fn execute(case: &Case, seed: u64) -> Observed {
    LOG.with(|l| l.borrow_mut().clear());
    let case2 = case.clone();
    let res = vcommon::catch(move || {
        let mut sim = Sim::new(());
        sim.node("tx", Tx { case: case2, next_seq: 0, probes: 0 });
        sim.node("rx", Rx);
        let out = sim.gate("tx", "out");
        let inp = sim.gate("rx", "in");
        let metrics = ChannelMetrics::new(
            case.bitrate,
            Duration::from_nanos(case.latency_ns),
            Duration::from_nanos(case.jitter_ns),
            match case.policy {
                Policy::Drop => ChannelDropBehaviour::Drop,
                Policy::Queue(l) => ChannelDropBehaviour::Queue(l),
            },
        );
        if case.reverse_connect {
            inp.connect(out, Some(Channel::new(metrics)));
        } else {
            out.connect(inp, Some(Channel::new(metrics)));
        }
        #[allow(unused_mut)]
        let mut b = Builder::seeded(seed).quiet();
        #[cfg(feature = "cq")]
        {
            // the bucket scan is linear in skipped buckets: adapt the bucket width to the time scale of the case
            let width = case.bucket_ns();
            if width != 2_500_000 {
                b = b.cqueue_options(1024, Duration::from_nanos(width));
            }
        }
        let rt = b.build(sim.freeze());
        match rt.run() {
            Ok((_, t, _)) => (true, t.as_nanos() as u64),
            Err(_) => (false, 0),
        }
    });
    let log = LOG.with(|l| std::mem::take(&mut *l.borrow_mut()));
    match res {
        Ok((ok, end)) => Observed { log, run_ok: ok, panicked: None, end_ns: end },
        Err(p) => Observed { log, run_ok: false, panicked: Some(p), end_ns: 0 },
    }
}

/// exact transmission time size*8/bitrate, rounded to the nearest nanosecond (integer arithmetic)
fn tx_ns(len: usize, bitrate: usize) -> u64 {
    if bitrate == 0 {
        return 0;
    }
    let num = (len as u128) * 8 * 1_000_000_000u128;
    let b = bitrate as u128;
    ((num + b / 2) / b) as u64
}

/// true if the exact value is at a safe distance from a rounding tie, so that "nearest nanosecond"
/// is the same in exact and in floating-point arithmetic (the generator only uses such combinations)
fn rounding_is_unambiguous(len: usize, bitrate: usize) -> bool {
    if bitrate == 0 {
        return true;
    }
    let num = (len as u128) * 8 * 1_000_000_000u128;
    let b = bitrate as u128;
    let frac_milli = (num % b) * 1000 / b; // fractional part in 1/1000 ns
    !(480..=520).contains(&frac_milli)
}

#[derive(Default)]
pub struct Obs {
    pub offers: u64,
    pub delivered: u64,
    pub dropped: u64,
    pub queued: u64,
    pub busy_periods: u64,
    pub ambiguous: u64,
    pub zero_tx: u64,
    pub bursts: u64,
    pub known_zero_tx_overtake: u64,
    pub probed: u64,
    pub probe_generations: u64,
}

pub type Finding = (&'static str, String);

/// The reference automaton of one channel direction: `idle | busy until b`, FIFO queue with byte count.
struct Automaton<'a> {
    case: &'a Case,
    busy_until: Option<u64>,
    queue: VecDeque<(u64, usize)>,
    acc_bytes: usize,
    /// seq -> (transmission start, transmission time)
    started: HashMap<u64, (u64, u64)>,
    start_order: Vec<u64>,
    dropped: Vec<u64>,
    busy_periods: u64,
    zero_tx: u64,
}

impl Automaton<'_> {
    fn start(&mut self, seq: u64, len: usize, at: u64) {
        let tx = tx_ns(len, self.case.bitrate);
        self.started.insert(seq, (at, tx));
        self.start_order.push(seq);
        if tx > 0 {
            self.busy_until = Some(at + tx);
            self.busy_periods += 1;
        } else {
            // a transmission of 0 ns does not occupy the channel
            self.zero_tx += 1;
        }
    }

    /// the transmission that ends at `b` is over: queued messages start in FIFO order the instant
    /// the channel becomes idle
    fn finish_current(&mut self) {
        let Some(b) = self.busy_until.take() else { return };
        while self.busy_until.is_none() {
            let Some((seq, len)) = self.queue.pop_front() else { break };
            self.acc_bytes -= len;
            self.start(seq, len, b);
        }
    }

    /// everything that certainly happened strictly before `t`
    fn advance_before(&mut self, t: u64) {
        while self.busy_until.is_some_and(|b| b < t) {
            self.finish_current();
        }
    }

    fn drain(&mut self) {
        while self.busy_until.is_some() {
            self.finish_current();
        }
    }

    fn offer(&mut self, seq: u64, len: usize, t: u64) -> &'static str {
        if self.busy_until.is_some() {
            match self.case.policy {
                Policy::Drop => {
                    self.dropped.push(seq);
                    "dropped"
                }
                Policy::Queue(limit) => {
                    if self.acc_bytes + len > limit.unwrap_or(usize::MAX) {
                        self.dropped.push(seq);
                        "dropped"
                    } else {
                        self.queue.push_back((seq, len));
                        self.acc_bytes += len;
                        "queued"
                    }
                }
            }
        } else {
            self.start(seq, len, t);
            "started"
        }
    }
}

pub fn check(case: &Case, o: &Observed) -> (Vec<Finding>, Obs) {
    let mut f: Vec<Finding> = Vec::new();
    let mut obs = Obs::default();
    if let Some(p) = &o.panicked {
        f.push(("run-panicked", format!("the simulation unwound: {p}")));
        return (f, obs);
    }
    if !o.run_ok {
        f.push(("run-error", "run() returned an error".into()));
        return (f, obs);
    }
    let mut a = Automaton {
        case,
        busy_until: None,
        queue: VecDeque::new(),
        acc_bytes: 0,
        started: HashMap::new(),
        start_order: Vec::new(),
        dropped: Vec::new(),
        busy_periods: 0,
        zero_tx: 0,
    };
    let mut last_offer_t: Option<u64> = None;
    let mut arrivals: Vec<(u64, u64)> = Vec::new();
    let mut end: Option<(bool, usize, usize)> = None;
    let mut probed: Vec<(u64, u64, u32)> = Vec::new();
    for rec in &o.log {
        match rec {
            Rec::Arrive { seq, t, last_gate_ok } => {
                if !last_gate_ok {
                    f.push(("header", format!("message {seq} arrived without the receiving gate in its header")));
                }
                arrivals.push((*seq, *t));
            }
            Rec::End { busy, queued, acc } => end = Some((*busy, *queued, *acc)),
            Rec::Probed { seq, t, generation } => probed.push((*seq, *t, *generation)),
            Rec::Offer { seq, t, len, busy_before, finish_before, busy_after, finish_after, queued_before, queued_after, acc_after, actual_after } => {
                obs.offers += 1;
                if last_offer_t == Some(*t) {
                    obs.bursts += 1;
                }
                last_offer_t = Some(*t);
                if *len != HEADER + case_size(case, *seq) {
                    f.push(("length", format!("message {seq}: length() = {len}, expected {}", HEADER + case_size(case, *seq))));
                }
                if acc_after != actual_after {
                    f.push(("queue-bytes", format!("offer {seq}: the channel accounts {acc_after} queued bytes, the queued messages have {actual_after}")));
                }
                a.advance_before(*t);
                if a.busy_until == Some(*t) {
                    // The offer is made exactly at the instant the transmission ends. Whether the end of the
                    // transmission or the offer comes first is left open by the statement; this single case is
                    // resolved by what the channel reports (still the old transmission: busy until exactly t).
                    obs.ambiguous += 1;
                    if !(*busy_before && *finish_before == *t) {
                        a.finish_current();
                    }
                }
                // the sampled state must agree with the automaton
                let model_busy = a.busy_until.is_some();
                if model_busy != *busy_before {
                    f.push((
                        "busy-flag",
                        format!("offer {seq} at {t} ns: the channel reports busy = {busy_before}, the reference says {model_busy} (busy until {:?})", a.busy_until),
                    ));
                    break;
                }
                if let Some(b) = a.busy_until {
                    if *finish_before != b {
                        f.push((
                            "finish-time",
                            format!("offer {seq} at {t} ns: transmission_finish_time() = {finish_before} ns, the reference expects {b} ns"),
                        ));
                        break;
                    }
                }
                if *queued_before != a.queue.len() {
                    f.push(("queue-len", format!("offer {seq} at {t} ns: {queued_before} messages queued, the reference expects {}", a.queue.len())));
                    break;
                }
                match a.offer(*seq, *len, *t) {
                    "dropped" => obs.dropped += 1,
                    "queued" => obs.queued += 1,
                    _ => {
                        let tx = a.started[seq].1;
                        if tx > 0 && (!*busy_after || *finish_after != *t + tx) {
                            f.push((
                                "busy-duration",
                                format!("offer {seq} at {t} ns of {len} bytes: busy = {busy_after} until {finish_after} ns, expected busy until {} ns (size*8/bitrate)", *t + tx),
                            ));
                            break;
                        }
                        if tx == 0 && *busy_after {
                            f.push(("busy-duration", format!("offer {seq}: a transmission of 0 ns made the channel busy until {finish_after} ns")));
                            break;
                        }
                    }
                }
                if *queued_after != a.queue.len() {
                    f.push((
                        "queue-len",
                        format!(
                            "after offer {seq} at {t} ns ({len} bytes, policy {:?}): {queued_after} messages queued, the reference expects {} ({} bytes)",
                            case.policy,
                            a.queue.len(),
                            a.acc_bytes
                        ),
                    ));
                    break;
                }
            }
        }
    }
    if !f.is_empty() {
        return (f, obs);
    }
    a.drain();
    obs.busy_periods = a.busy_periods;
    obs.zero_tx = a.zero_tx;

    // accounting: delivered exactly once iff started, never if dropped
    let mut seen: HashMap<u64, u64> = HashMap::new();
    for (seq, t) in &arrivals {
        if seen.insert(*seq, *t).is_some() {
            f.push(("duplicate", format!("message {seq} was delivered twice")));
        }
        if a.dropped.contains(seq) {
            f.push(("dropped-delivered", format!("message {seq} had to be dropped (channel busy / queue full) but was delivered at {t} ns")));
        } else if !a.started.contains_key(seq) {
            f.push(("phantom", format!("message {seq} was delivered but never offered")));
        }
    }
    for seq in &a.start_order {
        let (s, tx) = a.started[seq];
        let lo = s + tx + case.latency_ns;
        let hi = lo + case.jitter_ns;
        match seen.get(seq) {
            None => f.push((
                "not-delivered",
                format!("message {seq} (transmission started at {s} ns) was never delivered; the run ended at {} ns", o.end_ns),
            )),
            Some(at) => {
                // jitter is drawn from [0, jitter); the conversion to nanoseconds may round up to the bound
                let ok = if case.jitter_ns == 0 { *at == lo } else { *at >= lo && *at <= hi };
                if !ok {
                    f.push((
                        "arrival-time",
                        format!(
                            "message {seq}: transmission started at {s} ns, tx {tx} ns, latency {} ns, jitter < {} ns: arrival expected in [{lo}, {hi}] ns, observed {at} ns",
                            case.latency_ns, case.jitter_ns
                        ),
                    ));
                }
                obs.delivered += 1;
            }
        }
        if f.len() > 4 {
            break;
        }
    }
    if case.probe > 0 && f.is_empty() {
        // every transmission is seen by exactly one probe, at the instant it starts, in transmission order
        let want: Vec<(u64, u64)> = a.start_order.iter().map(|s| (*s, a.started[s].0)).collect();
        let got: Vec<(u64, u64)> = probed.iter().map(|(s, t, _)| (*s, *t)).collect();
        if got != want {
            let i = got.iter().zip(&want).position(|(x, y)| x != y).unwrap_or(got.len().min(want.len()));
            f.push((
                "probe",
                format!(
                    "the probes saw {} transmissions, the reference has {}; first difference at #{i}: seen {:?}, expected {:?} (seq, start ns)",
                    got.len(),
                    want.len(),
                    got.get(i),
                    want.get(i)
                ),
            ));
        }
        obs.probed = probed.len() as u64;
        obs.probe_generations = probed.iter().map(|p| p.2).collect::<std::collections::BTreeSet<_>>().len() as u64;
    }
    if case.jitter_ns == 0 && f.is_empty() {
        // zero jitter: deliveries preserve the offer order
        let order: Vec<u64> = arrivals.iter().map(|(s, _)| *s).collect();
        if let Some(i) = (1..order.len()).find(|i| order[*i] < order[*i - 1]) {
            let (late, early) = (order[i - 1], order[i]);
            // the overtaking message (`late`: offered later, delivered earlier)
            let (s_late, tx_late) = a.started[&late];
            let known = case.latency_ns == 0 && tx_late == 0 && seen[&late] == seen[&early] && a.started[&early].1 > 0 && s_late == seen[&early];
            if known {
                obs.known_zero_tx_overtake += 1;
                f.push((
                    "reordered-zero-tx-zero-latency",
                    format!("message {late} (0 ns transmission, dequeued at {s_late} ns, latency 0) was delivered before message {early} which arrives at the same instant"),
                ));
            } else {
                f.push(("reordered", format!("zero jitter but message {late} was delivered before message {early} (arrival order {:?})", &order[..order.len().min(12)])));
            }
        }
    }
    match end {
        Some((busy, queued, _)) if busy || queued > 0 => {
            f.push(("stuck", format!("at the end of the run the channel is busy = {busy} with {queued} messages queued")));
        }
        None => f.push(("no-end", "at_sim_end of the sender was not called".into())),
        _ => {}
    }
    (f, obs)
}

fn case_size(case: &Case, seq: u64) -> usize {
    let mut k = 0u64;
    for (_, sizes) in &case.offers {
        for s in sizes {
            if k == seq {
                return *s;
            }
            k += 1;
        }
    }
    0
}

const BITRATES: &[usize] = &[0, 1, 8, 1000, 8000, 1_000_000, 1_000_000_000, 1_000_000_000_000, 10_000_000_000_000, 3, 123_456_789];
const LATENCIES: &[u64] = &[0, 3, 1_000_000, 1_000_000_000];
const JITTERS: &[u64] = &[0, 0, 1_000_000, 1_000_000_000];
const BODIES: &[usize] = &[0, 1, 61, 448, 1186, 1436, 2436, 65_000];

pub fn gen_case(rng: &mut Rng) -> Case {
    let bitrate = *rng.pick(BITRATES);
    let latency_ns = *rng.pick(LATENCIES);
    let jitter_ns = *rng.pick(JITTERS);
    let k_bodies = 1 + rng.usize_below(3);
    let safe: Vec<usize> = BODIES.iter().copied().filter(|b| rounding_is_unambiguous(b + HEADER, bitrate)).collect();
    let bodies: Vec<usize> = (0..k_bodies).map(|_| *rng.pick(&safe)).collect();
    let lens: Vec<usize> = bodies.iter().map(|b| b + HEADER).collect();
    let policy = match rng.below(5) {
        0 => Policy::Drop,
        1 => Policy::Queue(None),
        2 => Policy::Queue(Some(0)),
        _ => {
            // at / one below / one above exact multiples of the message lengths in play
            let base: usize = (0..1 + rng.usize_below(4)).map(|_| *rng.pick(&lens)).sum();
            Policy::Queue(Some((base + rng.usize_below(3)).saturating_sub(1)))
        }
    };
    let n_instants = 1 + rng.usize_below(10);
    let mut offers = Vec::new();
    // bound on the simulated horizon (slow links): at most ~3 hours of transmissions per case
    let max_tx = lens.iter().map(|l| tx_ns(*l, bitrate)).max().unwrap_or(0).max(1);
    let max_msgs = (10_000_000_000_000u64 / max_tx).clamp(2, 120) as usize;
    let mut t: u64 = rng.below(3) * 1_000;
    let typical_tx = tx_ns(lens[0], bitrate).max(1);
    let mut total = 0usize;
    for _ in 0..n_instants {
        let burst = match rng.below(6) {
            0..=2 => 1,
            3..=4 => 2 + rng.usize_below(4),
            _ => 5 + rng.usize_below(46),
        };
        let burst = burst.min(max_msgs.saturating_sub(total)).max(1);
        total += burst;
        let sizes: Vec<usize> = (0..burst).map(|_| *rng.pick(&bodies)).collect();
        let gap = match rng.below(9) {
            0 => typical_tx / 2,
            1 => typical_tx.saturating_sub(1),
            2 => typical_tx,
            3 => typical_tx + 1,
            4 => typical_tx * 2,
            5 => typical_tx * (burst as u64 + 1) + latency_ns,
            6 => typical_tx * burst as u64,
            7 => 1 + rng.below(typical_tx.saturating_mul(3).max(10)),
            _ => typical_tx * burst as u64 * 2 + latency_ns + jitter_ns + 5,
        };
        offers.push((t, sizes));
        t = t.saturating_add(gap.max(1)).min(u64::MAX / 4);
    }
    Case { bitrate, latency_ns, jitter_ns, policy, offers, timers_upfront: rng.chance(1, 2), reverse_connect: rng.chance(1, 2), probe: rng.below(3) as u8 }
}

fn case_hash(c: &Case) -> u64 {
    let mut h = Hasher64::new();
    h.str(&serde_json::to_string(c).unwrap());
    h.finish()
}

pub fn case_json(case: &Case, seed: u64) -> Value {
    json!({"driver": "desmon", "sub": "c07", "case": serde_json::to_value(case).unwrap(), "sim_seed": seed})
}

/// boundary grid: policy x limit exactly at the byte boundaries, small bursts
fn grid_cases() -> Vec<Case> {
    let mut v = Vec::new();
    for &bitrate in &[8000usize, 1_000_000_000, 10_000_000_000_000, 0] {
        for &body in &[0usize, 448, 1186] {
            let len = body + HEADER;
            for k in 0..3usize {
                for delta in [-1i64, 0, 1] {
                    let limit = (k * len) as i64 + delta;
                    if limit < 0 {
                        continue;
                    }
                    for burst in [1usize, 2, 3, 4, 5] {
                        v.push(Case {
                            bitrate,
                            latency_ns: 3,
                            jitter_ns: 0,
                            policy: Policy::Queue(Some(limit as usize)),
                            offers: vec![(0, vec![body; burst]), (tx_ns(len, bitrate).max(1) * 20, vec![body; 2])],
                            timers_upfront: true,
                            reverse_connect: burst % 2 == 0,
                            probe: (burst % 3) as u8,
                        });
                    }
                }
            }
        }
    }
    v
}

// -------------------------------------------------------------------------------------------------
// a link created at run time from the channel of a link that is transmitting at that moment
// -------------------------------------------------------------------------------------------------

thread_local! {
    static PROBE_GATES: RefCell<Vec<GateRef>> = const { RefCell::new(Vec::new()) };
    static PROBE_LOG: RefCell<Vec<(u16, u64, bool)>> = const { RefCell::new(Vec::new()) };
}

struct ProbeTx {
    big: usize,
    small: usize,
    /// send instants on the new link
    later: Vec<u64>,
}

impl Module for ProbeTx {
    fn at_sim_start(&mut self, _: usize) {
        schedule_at(Message::default().kind(TIMER).id(0), SimTime::from_duration(Duration::from_nanos(1_000_000)));
        for (i, t) in self.later.iter().enumerate() {
            schedule_at(Message::default().kind(TIMER).id(1 + i as u16), SimTime::from_duration(Duration::from_nanos(*t)));
        }
    }

    fn handle_message(&mut self, msg: Message) {
        if msg.header().kind != TIMER {
            return;
        }
        if msg.header().id == 0 {
            // the first link starts a long transmission; the second link is created with its channel as the template
            send(Message::default().id(100).with_content(Pay { seq: 100, size: self.big }), "out");
            let template = current().gate("out", 0).and_then(|g| g.channel());
            let (a, b) = PROBE_GATES.with(|g| (g.borrow()[0].clone(), g.borrow()[1].clone()));
            // connect() gives the direction self -> other its own copy of the channel (the other direction shares the
            // object that was passed in, i.e. here the transmitting channel itself, which is busy by rights)
            a.connect(b, template);
        } else {
            let busy = current().gate("aux", 0).and_then(|g| g.channel()).is_some_and(|c| c.is_busy());
            PROBE_LOG.with(|l| l.borrow_mut().push((msg.header().id, now_ns(), busy)));
            send(Message::default().id(msg.header().id).with_content(Pay { seq: u64::from(msg.header().id), size: self.small }), "aux");
        }
    }
}

struct ProbeRx;
impl Module for ProbeRx {
    fn handle_message(&mut self, msg: Message) {
        let aux = msg.header().last_gate.as_ref().is_some_and(|g| g.name() == "aux");
        if aux {
            PROBE_LOG.with(|l| l.borrow_mut().push((1000 + msg.header().id, now_ns(), false)));
        }
    }
}

/// The new link has carried nothing yet: it must be idle, and well separated messages on it are each delivered
/// after exactly transmission time + latency.
pub fn runtime_connect_probe(rng: &mut Rng) -> Vec<Finding> {
    let bitrate = *rng.pick(&[8_000usize, 1_000_000, 80_000]);
    let latency = *rng.pick(&[0u64, 1_000_000, 30_000_000]);
    let drop = rng.chance(1, 2);
    let big = 1000 + rng.usize_below(3000);
    let small = rng.usize_below(200);
    let busy_for = tx_ns(big + HEADER, bitrate);
    let gap = tx_ns(small + HEADER, bitrate) + latency + 1_000_000;
    // some of the later sends fall into the busy period of the first link, some after it
    let first = 1_000_000 + if rng.chance(1, 2) { busy_for / 3 } else { busy_for + 5_000_000 };
    let later: Vec<u64> = (0..3).map(|i| first + i * gap).collect();
    PROBE_LOG.with(|l| l.borrow_mut().clear());
    let later2 = later.clone();
    let res = vcommon::catch(move || {
        let mut sim = Sim::new(());
        sim.node("tx", ProbeTx { big, small, later: later2 });
        sim.node("rx", ProbeRx);
        let policy = if drop { ChannelDropBehaviour::Drop } else { ChannelDropBehaviour::Queue(None) };
        let metrics = ChannelMetrics::new(bitrate, Duration::from_nanos(latency), Duration::ZERO, policy);
        let out = sim.gate("tx", "out");
        let inp = sim.gate("rx", "in");
        out.connect(inp, Some(Channel::new(metrics)));
        let a = sim.gate("tx", "aux");
        let b = sim.gate("rx", "aux");
        PROBE_GATES.with(|g| *g.borrow_mut() = vec![a, b]);
        let rt = Builder::seeded(1).quiet().build(sim.freeze());
        rt.run().map(|_| ()).map_err(|e| format!("{e}"))
    });
    PROBE_GATES.with(|g| g.borrow_mut().clear());
    let log = PROBE_LOG.with(|l| std::mem::take(&mut *l.borrow_mut()));
    let mut f = Vec::new();
    match res {
        Err(p) => f.push(("panicked", format!("connecting a link at run time panicked: {p}"))),
        Ok(Err(e)) => f.push(("run-error", e)),
        Ok(Ok(())) => {
            for (i, t) in later.iter().enumerate() {
                let id = 1 + i as u16;
                if log.iter().any(|(k, _, busy)| *k == id && *busy) {
                    f.push(("busy-flag", format!("a link created at run time (template: the channel of a link that was transmitting) reports busy at {t} ns although nothing is being transmitted on it")));
                }
                let want = t + tx_ns(small + HEADER, bitrate) + latency;
                match log.iter().find(|(k, _, _)| *k == 1000 + id) {
                    Some((_, at, _)) if *at == want => {}
                    Some((_, at, _)) => f.push(("arrival-time", format!("message offered at {t} ns to an idle link created at run time arrived at {at} ns, expected {want} ns"))),
                    None => f.push(("not-delivered", format!("message offered at {t} ns to an idle link created at run time (policy {}) was never delivered", if drop { "Drop" } else { "Queue" }))),
                }
            }
        }
    }
    f
}

// -------------------------------------------------------------------------------------------------
// both directions of one link carry traffic at the same time
// -------------------------------------------------------------------------------------------------

struct Duplex {
    /// (send instant, id, body size)
    sends: Vec<(u64, u16, usize)>,
}

impl Module for Duplex {
    fn at_sim_start(&mut self, _: usize) {
        for (i, (t, _, _)) in self.sends.iter().enumerate() {
            schedule_at(Message::default().kind(TIMER).id(i as u16), SimTime::from_duration(Duration::from_nanos(*t)));
        }
    }

    fn handle_message(&mut self, msg: Message) {
        if msg.header().kind == TIMER {
            let (_, id, size) = self.sends[msg.header().id as usize];
            send(Message::default().id(id).with_content(Pay { seq: u64::from(id), size }), "port");
        } else {
            PROBE_LOG.with(|l| l.borrow_mut().push((msg.header().id, now_ns(), false)));
        }
    }
}

/// The two directions of a link are independent channels: a message offered to the idle direction while the other
/// direction transmits (and holds queued messages) starts at once and arrives after its own transmission time + latency.
pub fn duplex_probe(rng: &mut Rng) -> Vec<Finding> {
    let bitrate = *rng.pick(&[8_000usize, 1_000_000, 80_000]);
    let latency = *rng.pick(&[0u64, 1_000_000, 30_000_000]);
    let drop = rng.chance(1, 2);
    let big = 1000 + rng.usize_below(3000);
    let small = 1 + rng.usize_below(200);
    let tx_big = tx_ns(big + HEADER, bitrate);
    let t0 = 10_000_000u64;
    // a: two big messages at t0 (the second is queued or dropped); b: one small message while a's first one transmits
    let a_sends = vec![(t0, 1u16, big), (t0, 2u16, big)];
    let b_at = t0 + 1 + rng.below(tx_big.max(2) - 1);
    let b_sends = vec![(b_at, 11u16, small)];
    let reverse_connect = rng.chance(1, 2);
    PROBE_LOG.with(|l| l.borrow_mut().clear());
    let res = vcommon::catch(move || {
        let mut sim = Sim::new(());
        sim.node("a", Duplex { sends: a_sends });
        sim.node("b", Duplex { sends: b_sends });
        let policy = if drop { ChannelDropBehaviour::Drop } else { ChannelDropBehaviour::Queue(None) };
        let metrics = ChannelMetrics::new(bitrate, Duration::from_nanos(latency), Duration::ZERO, policy);
        let (ga, gb) = (sim.gate("a", "port"), sim.gate("b", "port"));
        if reverse_connect {
            gb.connect(ga, Some(Channel::new(metrics)));
        } else {
            ga.connect(gb, Some(Channel::new(metrics)));
        }
        let rt = Builder::seeded(1).quiet().build(sim.freeze());
        rt.run().map(|_| ()).map_err(|e| format!("{e}"))
    });
    let log = PROBE_LOG.with(|l| std::mem::take(&mut *l.borrow_mut()));
    let mut f = Vec::new();
    match res {
        Err(p) => f.push(("panicked", format!("traffic in both directions of one link panicked: {p}"))),
        Ok(Err(e)) => f.push(("run-error", e)),
        Ok(Ok(())) => {
            let mut want: Vec<(u16, u64)> = vec![(1, t0 + tx_big + latency), (11, b_at + tx_ns(small + HEADER, bitrate) + latency)];
            if !drop {
                want.push((2, t0 + 2 * tx_big + latency));
            }
            want.sort_by_key(|e| (e.1, e.0));
            let mut got: Vec<(u16, u64)> = log.iter().map(|(id, t, _)| (*id, *t)).collect();
            got.sort_by_key(|e| (e.1, e.0));
            if got != want {
                f.push((
                    "duplex",
                    format!(
                        "link of {bitrate} bit/s, latency {latency} ns, policy {}: a offers 2 x {} bytes at {t0} ns, b offers {} bytes at {b_at} ns in the other direction; arrivals (id, ns) {:?}, expected {:?} (the directions are independent)",
                        if drop { "Drop" } else { "Queue" },
                        big + HEADER,
                        small + HEADER,
                        got,
                        want
                    ),
                ));
            }
        }
    }
    f
}

pub fn cmd(args: &Args) -> Report {
    let mut rep = Report::new("C07");
    let mut rng = Rng::new(args.stream_seed("c07"));
    let cases = args.cases(600_000, 10_000_000);
    let mut queue: Vec<Case> = Vec::new();
    if args.budget.is_none() {
        // the enumerated boundary grid is split over the shards
        queue = grid_cases().into_iter().enumerate().filter(|(i, _)| (*i as u64) % args.shards == args.shard).map(|(_, c)| c).collect();
        rep.count("boundary_grid_cases", queue.len() as u64);
    }
    let mut i = 0u64;
    loop {
        let case = if let Some(c) = queue.pop() {
            c
        } else if i < cases {
            i += 1;
            gen_case(&mut rng)
        } else {
            break;
        };
        if i % 100 == 51 {
            rep.count("links_with_traffic_in_both_directions_at_once", 1);
            for (kind, detail) in duplex_probe(&mut rng).into_iter().take(1) {
                rep.violation(&format!("C07/{kind}"), &detail, json!({"driver": "desmon", "sub": "c07", "duplex_probe": true}));
            }
        }
        if i % 100 == 1 {
            rep.count("links_created_at_run_time_from_a_busy_template", 1);
            for (kind, detail) in runtime_connect_probe(&mut rng).into_iter().take(1) {
                rep.violation(&format!("C07/{kind}"), &detail, json!({"driver": "desmon", "sub": "c07", "runtime_connect_probe": true}));
            }
        }
        let seed = rng.next_u64();
        vcommon::mark_case(&format!("c07:{}:{}:{}", args.seed, args.shard, i));
        let o = execute(&case, seed);
        let (findings, obs) = check(&case, &o);
        rep.eval();
        rep.count("offers", obs.offers);
        rep.count("deliveries_checked", obs.delivered);
        rep.count("drops_predicted", obs.dropped);
        rep.count("messages_queued", obs.queued);
        rep.count("busy_periods", obs.busy_periods);
        rep.count("offers_at_the_busy_boundary_resolved_by_flag", obs.ambiguous);
        rep.count("zero_length_transmissions", obs.zero_tx);
        rep.count("zero_tx_overtakes_at_zero_latency", obs.known_zero_tx_overtake);
        rep.count("transmissions_seen_by_a_probe", obs.probed);
        if obs.probe_generations > 1 {
            rep.count("cases_with_the_probe_replaced_while_the_channel_is_in_use", 1);
        }
        rep.count("burst_offers_within_one_handler", obs.bursts);
        if case.jitter_ns > 0 {
            rep.count("cases_with_jitter", 1);
        }
        if findings.is_empty() && obs.queued + obs.dropped > 0 && obs.delivered > 0 {
            rep.nontrivial(case_hash(&case));
            if rep.wants_sample() && obs.offers <= 8 && obs.queued > 0 && obs.dropped > 0 {
                rep.sample(json!({"case": serde_json::to_value(&case).unwrap(), "delivered": obs.delivered, "dropped": obs.dropped, "queued": obs.queued}));
            }
        }
        let mut stop = false;
        for (kind, detail) in findings.into_iter().take(2) {
            if !rep.violation(&format!("C07/{kind}"), &detail, case_json(&case, seed)) {
                stop = true;
            }
        }
        if stop {
            break;
        }
    }
    rep
}

pub fn replay(v: &Value) -> i32 {
    let case: Case = serde_json::from_value(v.get("case").expect("case").clone()).expect("case");
    let seed = v.get("sim_seed").and_then(Value::as_u64).unwrap_or(1);
    println!("case: {}", serde_json::to_string(&case).unwrap());
    let o = execute(&case, seed);
    for r in &o.log {
        println!("  {r:?}");
    }
    let (f, _) = check(&case, &o);
    if f.is_empty() {
        println!("no violation");
        0
    } else {
        for (k, d) in f {
            println!("VIOLATION reproduced: C07/{k}: {d}");
        }
        1
    }
}
