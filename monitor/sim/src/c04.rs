//! C04 — seeded simulations are reproducible.
//!
//! A generated network / async model is executed with `Builder::seeded(s)` several times: twice
//! back to back, once more after an unrelated simulation, and in a separate process (the worker
//! starts itself as a child with a junk allocation up front). The observable history — deliveries,
//! timer completions, task wake-ups, values drawn from des::runtime::random / sample, select!
//! branches, final time, event count, result — must be identical; and it must change with the seed.

use des::net::channel::{ChannelDropBehaviour, ChannelMetrics};
use des::prelude::*;
use des::time::{interval, sleep};
use rand::distr::Uniform;
use serde_json::{json, Value};
use std::cell::RefCell;
use std::collections::{HashMap, HashSet};
use vcommon::{Args, Hasher64, Report, Rng};

const MS: u64 = 1_000_000;
const K_TIMER: u16 = 71;
const K_DATA: u16 = 72;

#[derive(Debug, Clone)]
pub struct Model {
    pub seed: u64,
    pub n: usize,
    /// per module: number of own timers, task flavour, restart at the k-th message (0 = never)
    pub timers: Vec<usize>,
    pub tasks: Vec<u8>,
    pub restart_at: Vec<usize>,
    pub jitter_ns: u64,
    pub ttl: u16,
    /// emissions made from at_sim_end (never dispatched; they must not reach a later simulation): 0 none, 1 schedule_in, 2 send
    pub end_emit: Vec<u8>,
    /// per module: number of tasks that sleep to common deadlines (three rounds) and draw a random value when they wake
    pub same_deadline_tasks: Vec<usize>,
    /// message bodies are hashed collections (std HashMap / HashSet with per-instance random iteration order) whose
    /// size enters the message length and so the transmission time
    pub hashed_bodies: bool,
    /// module 0 runs one task that yields this many times within the first instant (0 = none); its progress is part
    /// of the trace at every later event of the module - how far it got may only depend on virtual time, never on
    /// how long the executor needed
    pub marathon_yields: u32,
    /// builder options chained after Builder::seeded: 0 none, 1 cqueue_options(default values), 2 cqueue_options(64, 1 ms),
    /// 3 start_time(0) + max_time(far) - none of them may touch the seeded generator
    pub builder_options: u8,
}

pub fn gen_model(model_seed: u64) -> Model {
    let mut rng = Rng::new(model_seed);
    let n = 2 + rng.usize_below(7);
    Model {
        seed: model_seed,
        n,
        timers: (0..n).map(|_| rng.usize_below(5)).collect(),
        tasks: (0..n).map(|_| rng.below(4) as u8).collect(),
        restart_at: (0..n).map(|_| if rng.chance(1, 3) { 1 + rng.usize_below(6) } else { 0 }).collect(),
        jitter_ns: *rng.pick(&[0u64, MS, 20 * MS]),
        ttl: 2 + rng.below(8) as u16,
        end_emit: (0..n).map(|_| if rng.chance(1, 3) { 1 + rng.below(2) as u8 } else { 0 }).collect(),
        same_deadline_tasks: (0..n).map(|_| if rng.chance(1, 3) { 2 + rng.usize_below(7) } else { 0 }).collect(),
        hashed_bodies: rng.chance(1, 2),
        marathon_yields: if rng.chance(1, 150) { 300_000 + rng.below(200_000) as u32 } else { 0 },
        builder_options: if rng.chance(1, 2) { 1 + rng.below(3) as u8 } else { 0 },
    }
}

thread_local! {
    static TRACE: RefCell<Vec<String>> = const { RefCell::new(Vec::new()) };
    static PROGRESS: std::cell::Cell<u32> = const { std::cell::Cell::new(0) };
}

fn tr(s: String) {
    TRACE.with(|t| t.borrow_mut().push(s));
}

fn now() -> u128 {
    SimTime::now().as_nanos()
}

struct Node {
    idx: usize,
    model: Model,
    handled: usize,
    incarnation: u32,
}

impl Module for Node {
    fn reset(&mut self) {
        self.incarnation += 1;
    }

    fn at_sim_start(&mut self, _: usize) {
        let me = current().path().to_string();
        for k in 0..self.model.timers[self.idx] {
            // the delay itself is random
            let d: u64 = des::runtime::sample(Uniform::new(1u64, 50 * MS).unwrap());
            tr(format!("{} {me} start-sample {d}", now()));
            schedule_in(Message::default().kind(K_TIMER).id(k as u16), Duration::from_nanos(d));
        }
        let flavour = self.model.tasks[self.idx];
        let inc = self.incarnation;
        if self.idx == 0 && inc == 0 && self.model.marathon_yields > 0 {
            let (n, me2) = (self.model.marathon_yields, me.clone());
            tokio::spawn(async move {
                for i in 1..=n {
                    tokio::task::yield_now().await;
                    PROGRESS.with(|p| p.set(i));
                }
                let r: u64 = des::runtime::random();
                tr(format!("{} {me2} marathon of {n} yields done, drew {r}", now()));
            });
        }
        if flavour >= 1 {
            let me2 = me.clone();
            tokio::spawn(async move {
                for step in 0..6u32 {
                    // several branches are ready at once: the choice comes from the runtime's seeded generator
                    let branch = tokio::select! {
                        () = std::future::ready(()) => 0,
                        () = std::future::ready(()) => 1,
                        () = std::future::ready(()) => 2,
                    };
                    tr(format!("{} {me2} inc{inc} select {step} -> {branch}", now()));
                    let d: u64 = des::runtime::sample(Uniform::new(1u64, 9 * MS).unwrap());
                    sleep(Duration::from_nanos(d)).await;
                    tr(format!("{} {me2} inc{inc} woke after {d}", now()));
                }
            });
        }
        for w in 0..self.model.same_deadline_tasks[self.idx] {
            // several tasks of one module wake at the same instant: their order is part of the history
            let me2 = me.clone();
            let start = now() as u64;
            tokio::spawn(async move {
                for round in 1..=3u64 {
                    des::time::sleep_until(SimTime::from_duration(Duration::from_nanos(start + round * 4 * MS))).await;
                    let r: u64 = des::runtime::random();
                    tr(format!("{} {me2} inc{inc} worker {w} round {round} drew {r}", now()));
                }
            });
        }
        if flavour >= 2 {
            let me2 = me.clone();
            tokio::spawn(async move {
                let mut iv = interval(Duration::from_nanos(7 * MS));
                let mut long = std::pin::pin!(sleep(Duration::from_nanos(40 * MS)));
                for _ in 0..8 {
                    tokio::select! {
                        t = iv.tick() => tr(format!("{} {me2} inc{inc} tick {}", now(), t.as_nanos())),
                        () = &mut long => {
                            tr(format!("{} {me2} inc{inc} long sleep done", now()));
                            break;
                        }
                    }
                }
            });
        }
    }

    fn handle_message(&mut self, msg: Message) {
        let me = current().path().to_string();
        self.handled += 1;
        let h = msg.header();
        let r: u64 = des::runtime::random();
        let content = msg.try_content::<u64>().copied().unwrap_or(0);
        let shape = if let Some(m) = msg.try_content::<HashMap<String, u32>>() {
            format!("map of {} sum {}", m.len(), m.values().map(|v| u64::from(*v)).sum::<u64>())
        } else if let Some(m) = msg.try_content::<HashSet<String>>() {
            format!("set of {} chars {}", m.len(), m.iter().map(String::len).sum::<usize>())
        } else {
            String::from("plain")
        };
        if self.idx == 0 && self.model.marathon_yields > 0 {
            tr(format!("{} {me} marathon progress {}", now(), PROGRESS.with(std::cell::Cell::get)));
        }
        tr(format!(
            "{} {me} msg kind {} id {} content {content} {shape} length {} from {:?} drew {r}",
            now(),
            h.kind,
            h.id,
            msg.length(),
            h.src
        ));
        let ttl = if h.kind == K_TIMER { self.model.ttl } else { h.id };
        if ttl > 0 {
            // gate and extra delay chosen by the random value
            let gate = if r % 2 == 0 { "out0" } else { "out1" };
            let out = Message::default().kind(K_DATA).id(ttl - 1).src([self.idx as u8; 6]);
            let out = match (self.model.hashed_bodies, r % 5) {
                (true, 1 | 2) => {
                    // a routing-table like body: 17..80 entries with keys of differing length
                    let entries = 17 + (r >> 8) % 64;
                    let m: HashMap<String, u32> =
                        (0..entries).map(|k| (format!("net-{}", "x".repeat(((r >> 16).wrapping_add(k * 7) % 23) as usize) + &k.to_string()), k as u32)).collect();
                    out.with_content(m)
                }
                (true, 3) => {
                    let entries = 17 + (r >> 8) % 40;
                    let m: HashSet<String> = (0..entries).map(|k| format!("{k}-{}", "y".repeat(((r >> 20).wrapping_add(k * 5) % 19) as usize))).collect();
                    out.with_content(m)
                }
                _ => out.with_content(r),
            };
            if r % 3 == 0 {
                send_in(out, gate, Duration::from_nanos(r % (3 * MS)));
            } else {
                send(out, gate);
            }
        }
        if self.model.restart_at[self.idx] == self.handled {
            tr(format!("{} {me} requests restart", now()));
            current().shutdow_and_restart_in(Duration::from_nanos(2 * MS + 1));
        }
    }

    fn at_sim_end(&mut self) -> Result<(), RuntimeError> {
        match self.model.end_emit[self.idx] {
            1 => schedule_in(Message::default().kind(K_TIMER).id(0), Duration::from_nanos(3 * MS)),
            2 => send(Message::default().kind(K_DATA).id(1).with_content(7u64), "out0"),
            _ => {}
        }
        Ok(())
    }
}

pub struct Outcome {
    pub trace: Vec<String>,
    pub summary: String,
}

pub fn execute(model: &Model, sim_seed: u64) -> Outcome {
    TRACE.with(|t| t.borrow_mut().clear());
    PROGRESS.with(|p| p.set(0));
    let res = vcommon::catch(|| {
        let mut sim = Sim::new(());
        for i in 0..model.n {
            sim.node(format!("n{i}"), Node { idx: i, model: model.clone(), handled: 0, incarnation: 0 });
        }
        for i in 0..model.n {
            for (g, step) in [("out0", 1usize), ("out1", 2usize)] {
                let j = (i + step) % model.n;
                let a = sim.gate(format!("n{i}").as_str(), g);
                let b = sim.gate(format!("n{j}").as_str(), &format!("in{g}{i}"));
                a.connect(
                    b,
                    Some(Channel::new(ChannelMetrics::new(
                        10_000_000,
                        Duration::from_nanos(MS / 2),
                        Duration::from_nanos(model.jitter_ns),
                        ChannelDropBehaviour::Queue(None),
                    ))),
                );
            }
        }
        let mut b = Builder::seeded(sim_seed).quiet().max_itr(20_000);
        b = match model.builder_options {
            #[cfg(feature = "cq")]
            1 => b.cqueue_options(1028, Duration::from_nanos(2_500_000)),
            #[cfg(feature = "cq")]
            2 => b.cqueue_options(64, Duration::from_nanos(MS)),
            3 => b.start_time(SimTime::ZERO).max_time(SimTime::from_duration(Duration::from_secs(100_000))),
            _ => b,
        };
        let mut rt = b.build(sim.freeze());
        // the runtime handle's own entry points to the seeded generator (driver code between build and run)
        let a: u64 = rt.random();
        let b: u32 = rt.rng_sample(Uniform::new(0u32, 1_000_000).unwrap());
        tr(format!("driver drew {a} {b}"));
        // what driver code sees of the clock between build and run
        tr(format!("driver clock {} {}", rt.sim_time().as_nanos(), SimTime::now().as_nanos()));
        match rt.run() {
            Ok((_, t, p)) => format!("ok end={} events={} remaining={}", t.as_nanos(), p.event_count, p.remaining.len()),
            Err(e) => format!("err entries={}", e.len()),
        }
    });
    let trace = TRACE.with(|t| std::mem::take(&mut *t.borrow_mut()));
    Outcome { trace, summary: res.unwrap_or_else(|p| format!("panicked: {p}")) }
}

pub fn digest(o: &Outcome) -> u64 {
    let mut h = Hasher64::new();
    for l in &o.trace {
        h.str(l);
    }
    h.str(&o.summary);
    h.finish()
}

/// an unrelated simulation of another shape and seed (perturbs ids, allocator state, leftover RNG)
fn foreign(rng: &mut Rng) {
    let m = gen_model(rng.next_u64());
    let _ = execute(&m, rng.next_u64());
}

/// `desmon c04child model=<u64> sim=<u64>`: prints `digest length summary`
pub fn child_main(args: &Args) {
    // different heap layout than the parent
    let junk: usize = std::env::var("VERIF_JUNK").ok().and_then(|v| v.parse().ok()).unwrap_or(0);
    let _junk: Vec<Vec<u8>> = (0..junk % 97).map(|i| vec![i as u8; 1 + (junk * (i + 1)) % 4096]).collect();
    let model = gen_model(args.extra_u64("model").expect("model"));
    let o = execute(&model, args.extra_u64("sim").expect("sim"));
    println!("CHILD {} {} {}", digest(&o), o.trace.len(), o.summary);
}

fn run_child(model_seed: u64, sim_seed: u64, junk: u64) -> Result<(u64, usize, String), String> {
    let exe = std::env::current_exe().map_err(|e| e.to_string())?;
    let out = std::process::Command::new(exe)
        .arg("c04child")
        .arg(format!("model={model_seed}"))
        .arg(format!("sim={sim_seed}"))
        .env("VERIF_JUNK", junk.to_string())
        .env_remove("VERIF_MARKER")
        .output()
        .map_err(|e| e.to_string())?;
    let text = String::from_utf8_lossy(&out.stdout);
    let line = text.lines().find(|l| l.starts_with("CHILD ")).ok_or_else(|| format!("child printed no result (status {:?})", out.status))?;
    let mut it = line.splitn(4, ' ');
    it.next();
    let d: u64 = it.next().and_then(|x| x.parse().ok()).ok_or("digest")?;
    let n: usize = it.next().and_then(|x| x.parse().ok()).ok_or("length")?;
    Ok((d, n, it.next().unwrap_or("").to_string()))
}

pub fn case_json(model_seed: u64, sim_seed: u64) -> Value {
    json!({"driver": "desmon", "sub": "c04", "model_seed": model_seed.to_string(), "sim_seed": sim_seed.to_string()})
}

fn first_diff(a: &Outcome, b: &Outcome) -> String {
    for (i, (x, y)) in a.trace.iter().zip(&b.trace).enumerate() {
        if x != y {
            return format!("first difference at trace entry {i}: `{x}` vs `{y}`");
        }
    }
    if a.trace.len() != b.trace.len() {
        return format!("trace lengths {} vs {}", a.trace.len(), b.trace.len());
    }
    format!("results `{}` vs `{}`", a.summary, b.summary)
}

pub fn cmd(args: &Args) -> Report {
    let mut rep = Report::new("C04");
    let mut rng = Rng::new(args.stream_seed("c04"));
    let models = args.cases(24_000, 256_000);
    let with_children = !args.extra.contains_key("nochild");
    let mut stop = false;
    for i in 0..models {
        let model_seed = rng.next_u64();
        let model = gen_model(model_seed);
        // "all seeds": mostly random 64-bit values, sometimes the boundary values
        let seeds: Vec<u64> = (0..2 + rng.below(2))
            .map(|_| match rng.below(24) {
                0 => 0,
                1 => 1,
                2 => u64::MAX,
                3 => u64::from(u32::MAX) + rng.below(3),
                _ => rng.next_u64(),
            })
            .collect();
        let mut digests = Vec::new();
        for s in &seeds {
            vcommon::mark_case(&format!("c04:{}:{}:{}", args.seed, args.shard, i));
            let a = execute(&model, *s);
            let b = execute(&model, *s);
            foreign(&mut rng);
            let c = execute(&model, *s);
            rep.eval();
            rep.count("executions_compared", 3);
            rep.count("trace_entries_compared", a.trace.len() as u64 * 3);
            rep.count("select_choices_observed", a.trace.iter().filter(|l| l.contains(" select ")).count() as u64);
            rep.count("random_draws_observed", a.trace.iter().filter(|l| l.contains(" drew ") || l.contains("-sample ")).count() as u64);
            rep.count("restarts_observed", a.trace.iter().filter(|l| l.contains("requests restart")).count() as u64);
            if model.builder_options > 0 {
                rep.count("models_with_builder_options_chained_after_seeded", 1);
            }
            if model.marathon_yields > 0 {
                rep.count("models_with_a_task_of_over_300000_polls_in_one_instant", 1);
            }
            rep.count("hashed_collection_bodies_delivered", a.trace.iter().filter(|l| l.contains(" map of ") || l.contains(" set of ")).count() as u64);
            if model.jitter_ns > 0 {
                rep.count("runs_with_channel_jitter", 1);
            }
            if *s <= 1 || *s == u64::MAX {
                rep.count("runs_with_seed_0_1_or_max", 1);
            }
            let case = case_json(model_seed, *s);
            if a.summary.starts_with("panicked") {
                stop |= !rep.violation("C04/run-panicked", &a.summary, case.clone());
            }
            if digest(&a) != digest(&b) {
                stop |= !rep.violation("C04/differs-back-to-back", &format!("two executions back to back differ: {}", first_diff(&a, &b)), case.clone());
            } else if digest(&a) != digest(&c) {
                stop |= !rep.violation("C04/differs-after-foreign-simulation", &format!("the execution after an unrelated simulation differs: {}", first_diff(&a, &c)), case.clone());
            }
            if with_children && i % 4 == 0 {
                match run_child(model_seed, *s, rng.next_u64() % 1_000_000) {
                    Ok((d, n, summary)) => {
                        rep.count("separate_process_executions_compared", 1);
                        if d != digest(&a) {
                            stop |= !rep.violation(
                                "C04/differs-across-processes",
                                &format!("a separate process produced another history: {} vs {} trace entries, results `{}` vs `{}`", n, a.trace.len(), summary, a.summary),
                                case.clone(),
                            );
                        }
                    }
                    Err(e) => rep.info(format!("child process failed: {e}")),
                }
            }
            digests.push(digest(&a));
            if rep.wants_sample() && a.trace.len() > 10 && a.trace.len() < 40 {
                rep.sample(json!({"model_seed": model_seed.to_string(), "sim_seed": s.to_string(), "trace_head": a.trace.iter().take(12).collect::<Vec<_>>(), "result": a.summary}));
            }
        }
        // non-vacuity: the history depends on the seed
        let mut uniq = digests.clone();
        uniq.sort_unstable();
        uniq.dedup();
        if uniq.len() > 1 {
            rep.count("models_whose_history_changes_with_the_seed", 1);
            rep.nontrivial(model_seed);
        } else {
            rep.count("models_insensitive_to_the_seed", 1);
        }
        if stop {
            break;
        }
    }
    rep
}

pub fn replay(v: &Value) -> i32 {
    let model_seed: u64 = v.get("model_seed").and_then(Value::as_str).and_then(|s| s.parse().ok()).expect("model_seed");
    let sim_seed: u64 = v.get("sim_seed").and_then(Value::as_str).and_then(|s| s.parse().ok()).expect("sim_seed");
    let model = gen_model(model_seed);
    println!("model: {model:?}");
    let a = execute(&model, sim_seed);
    let b = execute(&model, sim_seed);
    let mut r = Rng::new(1);
    foreign(&mut r);
    let c = execute(&model, sim_seed);
    let child = run_child(model_seed, sim_seed, 12345);
    println!("digests: {} {} {} child {:?}", digest(&a), digest(&b), digest(&c), child);
    let mut bad = false;
    if digest(&a) != digest(&b) {
        println!("VIOLATION reproduced: C04/differs-back-to-back: {}", first_diff(&a, &b));
        bad = true;
    }
    if digest(&a) != digest(&c) {
        println!("VIOLATION reproduced: C04/differs-after-foreign-simulation: {}", first_diff(&a, &c));
        bad = true;
    }
    if let Ok((d, _, _)) = child {
        if d != digest(&a) {
            println!("VIOLATION reproduced: C04/differs-across-processes");
            bad = true;
        }
    }
    if !bad {
        println!("no violation");
    }
    i32::from(bad)
}
