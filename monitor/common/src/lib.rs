//! Shared plumbing of the monitors: PRNG, worker arguments, result / violation reporting,
//! identity registry for exactly-once-drop checks.
//!
//! Nothing in here depends on the system under test (in particular not on `rand`,
//! which the SUT uses), so a change in the SUT cannot change the workloads.

use serde_json::{json, Map, Value};
use std::collections::{BTreeMap, HashSet};
use std::io::Write;
use std::sync::Mutex;

pub mod tracked;

// ---------------------------------------------------------------------------------------------
// PRNG: xoshiro256** seeded through splitmix64
// ---------------------------------------------------------------------------------------------

#[derive(Debug, Clone)]
pub struct Rng {
    s: [u64; 4],
}

pub fn splitmix64(state: &mut u64) -> u64 {
    *state = state.wrapping_add(0x9E37_79B9_7F4A_7C15);
    let mut z = *state;
    z = (z ^ (z >> 30)).wrapping_mul(0xBF58_476D_1CE4_E5B9);
    z = (z ^ (z >> 27)).wrapping_mul(0x94D0_49BB_1331_11EB);
    z ^ (z >> 31)
}

/// Mixes several values into one seed.
pub fn mix(parts: &[u64]) -> u64 {
    let mut st = 0x1234_5678_9ABC_DEF0u64;
    let mut acc = 0u64;
    for p in parts {
        st ^= *p;
        acc = acc.rotate_left(17) ^ splitmix64(&mut st);
    }
    acc
}

pub fn hash_str(s: &str) -> u64 {
    // FNV-1a, 64 bit
    let mut h = 0xcbf2_9ce4_8422_2325u64;
    for b in s.as_bytes() {
        h ^= u64::from(*b);
        h = h.wrapping_mul(0x0000_0100_0000_01B3);
    }
    h
}

pub fn hash_bytes(bytes: &[u8]) -> u64 {
    let mut h = 0xcbf2_9ce4_8422_2325u64;
    for b in bytes {
        h ^= u64::from(*b);
        h = h.wrapping_mul(0x0000_0100_0000_01B3);
    }
    h
}

/// Incremental hasher for case / state hashes.
#[derive(Debug, Clone, Copy)]
pub struct Hasher64(pub u64);

impl Default for Hasher64 {
    fn default() -> Self {
        Hasher64(0xcbf2_9ce4_8422_2325)
    }
}

impl Hasher64 {
    pub fn new() -> Self {
        Self::default()
    }
    pub fn u64(&mut self, v: u64) -> &mut Self {
        for b in v.to_le_bytes() {
            self.0 ^= u64::from(b);
            self.0 = self.0.wrapping_mul(0x0000_0100_0000_01B3);
        }
        self
    }
    pub fn u128(&mut self, v: u128) -> &mut Self {
        self.u64(v as u64).u64((v >> 64) as u64)
    }
    pub fn str(&mut self, s: &str) -> &mut Self {
        for b in s.as_bytes() {
            self.0 ^= u64::from(*b);
            self.0 = self.0.wrapping_mul(0x0000_0100_0000_01B3);
        }
        self.u64(s.len() as u64)
    }
    pub fn finish(&self) -> u64 {
        let mut st = self.0;
        splitmix64(&mut st)
    }
}

impl Rng {
    pub fn new(seed: u64) -> Self {
        let mut st = seed;
        let s = [
            splitmix64(&mut st),
            splitmix64(&mut st),
            splitmix64(&mut st),
            splitmix64(&mut st),
        ];
        Rng { s }
    }

    pub fn next_u64(&mut self) -> u64 {
        let result = self.s[1].wrapping_mul(5).rotate_left(7).wrapping_mul(9);
        let t = self.s[1] << 17;
        self.s[2] ^= self.s[0];
        self.s[3] ^= self.s[1];
        self.s[1] ^= self.s[2];
        self.s[0] ^= self.s[3];
        self.s[2] ^= t;
        self.s[3] = self.s[3].rotate_left(45);
        result
    }

    /// Uniform in `0..n` (n > 0).
    pub fn below(&mut self, n: u64) -> u64 {
        assert!(n > 0);
        // multiply-shift; bias is irrelevant for workload generation
        ((u128::from(self.next_u64()) * u128::from(n)) >> 64) as u64
    }

    pub fn usize_below(&mut self, n: usize) -> usize {
        self.below(n as u64) as usize
    }

    /// Uniform in `lo..=hi`.
    pub fn range(&mut self, lo: u64, hi: u64) -> u64 {
        assert!(lo <= hi);
        if lo == 0 && hi == u64::MAX {
            return self.next_u64();
        }
        lo + self.below(hi - lo + 1)
    }

    pub fn chance(&mut self, num: u64, den: u64) -> bool {
        self.below(den) < num
    }

    pub fn pick<'a, T>(&mut self, items: &'a [T]) -> &'a T {
        &items[self.usize_below(items.len())]
    }

    /// Picks an index according to integer weights.
    pub fn weighted(&mut self, weights: &[u64]) -> usize {
        let total: u64 = weights.iter().sum();
        assert!(total > 0);
        let mut x = self.below(total);
        for (i, w) in weights.iter().enumerate() {
            if x < *w {
                return i;
            }
            x -= *w;
        }
        weights.len() - 1
    }

    pub fn shuffle<T>(&mut self, items: &mut [T]) {
        for i in (1..items.len()).rev() {
            let j = self.usize_below(i + 1);
            items.swap(i, j);
        }
    }
}

// ---------------------------------------------------------------------------------------------
// Worker arguments
// ---------------------------------------------------------------------------------------------

/// Arguments every worker understands:
/// `<sub-command> --tier quick|thorough --seed N --shard I --shards W [--replay CASE] [--budget N] [--scale N] [key=value ...]`
#[derive(Debug, Clone)]
pub struct Args {
    pub cmd: String,
    pub tier: String,
    pub seed: u64,
    pub shard: u64,
    pub shards: u64,
    pub replay: Option<String>,
    /// optional cap on the number of cases (used by the sanitizer tiers)
    pub budget: Option<u64>,
    pub extra: BTreeMap<String, String>,
}

impl Args {
    pub fn parse() -> Args {
        Self::parse_from(std::env::args().skip(1).collect())
    }

    pub fn parse_from(argv: Vec<String>) -> Args {
        let mut args = Args {
            cmd: String::new(),
            tier: "quick".to_string(),
            seed: 1,
            shard: 0,
            shards: 1,
            replay: None,
            budget: None,
            extra: BTreeMap::new(),
        };
        let mut it = argv.into_iter();
        while let Some(a) = it.next() {
            match a.as_str() {
                "--tier" => args.tier = it.next().expect("--tier needs a value"),
                "--seed" => args.seed = it.next().expect("--seed value").parse().expect("seed"),
                "--shard" => args.shard = it.next().expect("--shard value").parse().expect("shard"),
                "--shards" => {
                    args.shards = it.next().expect("--shards value").parse().expect("shards");
                }
                "--replay" => args.replay = Some(it.next().expect("--replay value")),
                "--budget" => {
                    args.budget = Some(it.next().expect("--budget value").parse().expect("budget"));
                }
                other if other.contains('=') && !other.starts_with("--") => {
                    let (k, v) = other.split_once('=').unwrap();
                    args.extra.insert(k.to_string(), v.to_string());
                }
                other if args.cmd.is_empty() => args.cmd = other.to_string(),
                other => panic!("unknown argument {other}"),
            }
        }
        args
    }

    pub fn thorough(&self) -> bool {
        self.tier == "thorough"
    }

    /// Seed of this worker for a named stream.
    pub fn stream_seed(&self, stream: &str) -> u64 {
        mix(&[self.seed, hash_str(&self.cmd), hash_str(stream), self.shard])
    }

    pub fn extra_u64(&self, key: &str) -> Option<u64> {
        self.extra.get(key).map(|v| v.parse().expect("numeric extra"))
    }

    /// Number of cases: `quick` or `thorough` default, divided over the shards, capped by --budget.
    pub fn cases(&self, quick: u64, thorough: u64) -> u64 {
        let total = if self.thorough() { thorough } else { quick };
        let total = self.extra_u64("cases").unwrap_or(total);
        let per = (total + self.shards - 1) / self.shards;
        match self.budget {
            Some(b) => per.min(b),
            None => per,
        }
    }
}

// ---------------------------------------------------------------------------------------------
// Reporting
// ---------------------------------------------------------------------------------------------

/// Collects what a worker observed and prints it as JSON lines on stdout.
/// Lines: `{"t":"violation",...}` as they occur, one `{"t":"result",...}` at the end.
#[derive(Debug, Default)]
pub struct Report {
    pub property: String,
    pub evaluations: u64,
    /// hashes of distinct non-trivial cases
    pub nontrivial: HashSet<u64>,
    /// hashes of distinct implementation states (optional)
    pub states: HashSet<u64>,
    pub counters: BTreeMap<String, u64>,
    pub samples: Vec<Value>,
    pub violations: u64,
    pub info: Vec<String>,
    max_samples: usize,
    violation_signatures: HashSet<String>,
    hash_cap: usize,
}

pub const MAX_VIOLATIONS_PER_WORKER: u64 = 8;

impl Report {
    pub fn new(property: &str) -> Self {
        Report {
            property: property.to_string(),
            max_samples: 3,
            hash_cap: 60_000,
            ..Default::default()
        }
    }

    pub fn count(&mut self, key: &str, n: u64) {
        if let Some(v) = self.counters.get_mut(key) {
            *v += n;
        } else {
            self.counters.insert(key.to_string(), n);
        }
    }

    pub fn max(&mut self, key: &str, n: u64) {
        let e = self.counters.entry(key.to_string()).or_insert(0);
        if n > *e {
            *e = n;
        }
    }

    pub fn eval(&mut self) {
        self.evaluations += 1;
    }

    pub fn nontrivial(&mut self, hash: u64) {
        if self.nontrivial.len() < self.hash_cap {
            self.nontrivial.insert(hash);
        }
    }

    pub fn state(&mut self, hash: u64) {
        if self.states.len() < self.hash_cap {
            self.states.insert(hash);
        }
    }

    pub fn sample(&mut self, v: Value) {
        if self.samples.len() < self.max_samples {
            self.samples.push(v);
        }
    }

    pub fn wants_sample(&self) -> bool {
        self.samples.len() < self.max_samples
    }

    pub fn info(&mut self, s: impl Into<String>) {
        if self.info.len() < 20 {
            self.info.push(s.into());
        }
    }

    /// Reports a violation. `signature` describes the *shape* of the failure (matched against
    /// the known-findings file), `case` is everything needed to replay it.
    /// Returns false if the worker should stop (too many violations).
    pub fn violation(&mut self, signature: &str, detail: &str, case: Value) -> bool {
        self.violations += 1;
        let first_of_kind = self.violation_signatures.insert(signature.to_string());
        if first_of_kind || self.violations <= MAX_VIOLATIONS_PER_WORKER {
            let line = json!({
                "t": "violation",
                "property": self.property,
                "signature": signature,
                "detail": detail,
                "case": case,
            });
            let out = std::io::stdout();
            let mut out = out.lock();
            let _ = writeln!(out, "{line}");
            let _ = out.flush();
        }
        self.violations < MAX_VIOLATIONS_PER_WORKER
    }

    /// Reports a finding whose shape is a candidate for the known-findings file (the orchestrator decides):
    /// printed at most three times per signature and never counted against the worker's violation cap.
    pub fn violation_soft(&mut self, signature: &str, detail: &str, case: Value) {
        let key = format!("soft_findings::{signature}");
        let n = self.counters.get(&key).copied().unwrap_or(0);
        self.count(&key, 1);
        if n < 3 {
            let line = json!({
                "t": "violation",
                "property": self.property,
                "signature": signature,
                "detail": detail,
                "case": case,
            });
            let out = std::io::stdout();
            let mut out = out.lock();
            let _ = writeln!(out, "{line}");
            let _ = out.flush();
        }
    }

    pub fn finish(&self) {
        let mut counters = Map::new();
        for (k, v) in &self.counters {
            counters.insert(k.clone(), json!(v));
        }
        let line = json!({
            "t": "result",
            "property": self.property,
            "evaluations": self.evaluations,
            "nontrivial": self.nontrivial.iter().collect::<Vec<_>>(),
            "states": self.states.iter().collect::<Vec<_>>(),
            "counters": counters,
            "samples": self.samples,
            "violations": self.violations,
            "info": self.info,
        });
        let out = std::io::stdout();
        let mut out = out.lock();
        let _ = writeln!(out, "{line}");
        let _ = out.flush();
    }
}

// ---------------------------------------------------------------------------------------------
// Current-case marker: lets the orchestrator attribute a crash (abort, sanitizer report)
// to the case that was executing.
// ---------------------------------------------------------------------------------------------

static MARKER: Mutex<Option<std::fs::File>> = Mutex::new(None);

/// If the environment variable VERIF_MARKER names a file, the description of the case that
/// is about to execute is written there (overwriting the previous one).
pub fn mark_case(desc: &str) {
    use std::io::{Seek, SeekFrom};
    // the simulator installs and removes its own panic hook around every run, which drops ours
    quiet_panics();
    let mut guard = MARKER.lock().unwrap_or_else(|e| e.into_inner());
    if guard.is_none() {
        let Ok(path) = std::env::var("VERIF_MARKER") else {
            return;
        };
        let Ok(f) = std::fs::OpenOptions::new()
            .create(true)
            .write(true)
            .truncate(true)
            .open(path)
        else {
            return;
        };
        *guard = Some(f);
    }
    if let Some(f) = guard.as_mut() {
        let _ = f.seek(SeekFrom::Start(0));
        let _ = f.set_len(0);
        let _ = f.write_all(desc.as_bytes());
    }
}

/// Runs `f`, converting a panic into `Err(message)`.
pub fn catch<R>(f: impl FnOnce() -> R) -> Result<R, String> {
    match std::panic::catch_unwind(std::panic::AssertUnwindSafe(f)) {
        Ok(r) => Ok(r),
        Err(payload) => Err(panic_message(&payload)),
    }
}

pub fn panic_message(payload: &Box<dyn std::any::Any + Send>) -> String {
    if let Some(s) = payload.downcast_ref::<&str>() {
        (*s).to_string()
    } else if let Some(s) = payload.downcast_ref::<String>() {
        s.clone()
    } else {
        "<non-string panic payload>".to_string()
    }
}

/// Silences the default panic hook output (expected panics are part of many workloads).
/// Set VERIF_VERBOSE_PANICS=1 to keep the messages.
pub fn quiet_panics() {
    if std::env::var("VERIF_VERBOSE_PANICS").is_err() {
        std::panic::set_hook(Box::new(|_| {}));
    }
}
