//! Identity registry: every `Tracked` value has a unique id; creation, cloning and dropping are
//! recorded so that a monitor can decide "dropped exactly once, none alive, none dropped twice".
//!
//! The registry is process-global behind a mutex (values travel through tokio tasks, which
//! demand `Send`), and is updated in the same call that creates / drops the value.

use std::collections::HashMap;
use std::sync::Mutex;

#[derive(Debug, Clone, Copy, PartialEq, Eq)]
enum State {
    Alive,
    Dropped,
}

#[derive(Debug, Default)]
struct Registry {
    next: u64,
    states: HashMap<u64, (State, &'static str)>,
    double_drops: Vec<u64>,
    created: u64,
    dropped: u64,
    /// identity-less (zero-sized) values: created / dropped counts per tag
    anon: HashMap<&'static str, (u64, u64)>,
}

static REGISTRY: Mutex<Option<Registry>> = Mutex::new(None);

fn with<R>(f: impl FnOnce(&mut Registry) -> R) -> R {
    let mut guard = REGISTRY.lock().unwrap_or_else(|e| e.into_inner());
    f(guard.get_or_insert_with(Registry::default))
}

/// A value with an identity. `tag` is a free-form label (where the token was placed).
#[derive(Debug)]
pub struct Tracked {
    id: u64,
    tag: &'static str,
    /// a payload value so that the token is not zero sized and can be compared
    pub value: u64,
}

impl Tracked {
    pub fn new(tag: &'static str) -> Tracked {
        Self::with_value(tag, 0)
    }

    pub fn with_value(tag: &'static str, value: u64) -> Tracked {
        let id = with(|r| {
            r.next += 1;
            let id = r.next;
            r.states.insert(id, (State::Alive, tag));
            r.created += 1;
            id
        });
        Tracked { id, tag, value }
    }

    pub fn id(&self) -> u64 {
        self.id
    }

    pub fn tag(&self) -> &'static str {
        self.tag
    }
}

impl Clone for Tracked {
    fn clone(&self) -> Self {
        Tracked::with_value(self.tag, self.value)
    }
}

impl PartialEq for Tracked {
    fn eq(&self, other: &Self) -> bool {
        self.value == other.value && self.tag == other.tag
    }
}

impl Drop for Tracked {
    fn drop(&mut self) {
        with(|r| match r.states.get_mut(&self.id) {
            Some((state @ State::Alive, _)) => {
                *state = State::Dropped;
                r.dropped += 1;
            }
            Some((State::Dropped, _)) => r.double_drops.push(self.id),
            None => r.double_drops.push(self.id),
        });
    }
}

/// Summary of the registry since the last `reset`.
#[derive(Debug, Clone, PartialEq, Eq)]
pub struct Summary {
    pub created: u64,
    pub dropped: u64,
    /// (id, tag) of tokens still alive
    pub alive: Vec<(u64, &'static str)>,
    pub double_drops: Vec<u64>,
}

impl Summary {
    pub fn clean(&self) -> bool {
        self.alive.is_empty() && self.double_drops.is_empty() && self.created == self.dropped
    }

    pub fn describe(&self) -> String {
        let mut by_tag: std::collections::BTreeMap<&str, usize> = Default::default();
        for (_, tag) in &self.alive {
            *by_tag.entry(tag).or_default() += 1;
        }
        format!(
            "created={} dropped={} alive={:?} double_drops={}",
            self.created,
            self.dropped,
            by_tag,
            self.double_drops.len()
        )
    }
}

/// A zero-sized value cannot carry an id: its creations and drops are counted per tag.
pub fn anon_created(tag: &'static str) {
    with(|r| {
        r.anon.entry(tag).or_default().0 += 1;
        r.created += 1;
    });
}

pub fn anon_dropped(tag: &'static str) {
    with(|r| {
        r.anon.entry(tag).or_default().1 += 1;
        r.dropped += 1;
    });
}

/// Forgets everything (start of a case).
pub fn reset() {
    with(|r| *r = Registry::default());
}

pub fn summary() -> Summary {
    with(|r| {
        let mut alive: Vec<(u64, &'static str)> = r
            .states
            .iter()
            .filter(|(_, (s, _))| *s == State::Alive)
            .map(|(id, (_, tag))| (*id, *tag))
            .collect();
        alive.sort_unstable();
        let mut double_drops = r.double_drops.clone();
        for (tag, (c, d)) in &r.anon {
            // id 0 stands for "some value with this tag"
            for _ in 0..c.saturating_sub(*d) {
                alive.push((0, *tag));
            }
            for _ in 0..d.saturating_sub(*c) {
                double_drops.push(0);
            }
        }
        Summary {
            created: r.created,
            dropped: r.dropped,
            alive,
            double_drops,
        }
    })
}

pub fn is_alive(id: u64) -> bool {
    with(|r| matches!(r.states.get(&id), Some((State::Alive, _))))
}

pub fn is_dropped(id: u64) -> bool {
    with(|r| matches!(r.states.get(&id), Some((State::Dropped, _))))
}

pub fn alive_count() -> usize {
    with(|r| r.states.values().filter(|(s, _)| *s == State::Alive).count())
}
