use des::prelude::*;
use des::net::ndl::*;
use des::net::topology::Topology;
use des::net::SimBuilder;
use des::time::{sleep, timeout};
use des_cqueue::CQueue;
use des_net_utils::props::Cfg;
use std::panic::{catch_unwind, AssertUnwindSafe};
use std::sync::{Arc, Mutex};
use std::sync::atomic::{AtomicIsize, Ordering::SeqCst};
use std::time::Duration;

struct App(Arc<Mutex<Vec<(u32, SimTime)>>>);
impl Application for App { type EventSet = Ev; type Lifecycle = (); }
#[derive(Debug)] struct Ev(u32);
impl Event<App> for Ev { fn handle(self, rt: &mut Runtime<App>) { rt.app.0.lock().unwrap().push((self.0, SimTime::now())); } }

#[derive(Default)] struct Dummy; impl Module for Dummy {}

static LIVE: AtomicIsize = AtomicIsize::new(0);
#[derive(Debug)] struct Tok;
impl Tok { fn new() -> Self { LIVE.fetch_add(1, SeqCst); Tok } }
impl Clone for Tok { fn clone(&self) -> Self { Tok::new() } }
impl Drop for Tok { fn drop(&mut self) { LIVE.fetch_sub(1, SeqCst); } }
impl MessageBody for Tok { fn byte_len(&self) -> usize { 1000 } }

struct TSend(Vec<usize>, bool);
impl Module for TSend { fn at_sim_start(&mut self, _: usize) {
    for (i, sz) in self.0.iter().enumerate() { if self.1 { send(Message::default().with_content(Tok::new()), "out") } else { send(Message::default().id(i as u16).with_content(vec![0u8; *sz]), "out"); } } } }
struct Recv(Arc<Mutex<Vec<(u16, SimTime)>>>);
impl Module for Recv { fn handle_message(&mut self, m: Message) { self.0.lock().unwrap().push((m.header().id, SimTime::now())); } }

struct TM(Arc<Mutex<Vec<String>>>, usize);
impl Module for TM { fn at_sim_start(&mut self, _: usize) {
    let log = self.0.clone(); let mode = self.1;
    let h = tokio::spawn(async move {
        match mode {
            0 => { let r = timeout(Duration::from_secs(5), tokio::task::yield_now()).await; log.lock().unwrap().push(format!("timeout ok={} at {}", r.is_ok(), SimTime::now())); sleep(Duration::from_secs(10)).await; log.lock().unwrap().push(format!("woke at {}", SimTime::now())); }
            1 => { tokio::select! { biased; _ = sleep(Duration::from_secs(5)) => {}, _ = std::future::ready(()) => {}, } sleep(Duration::from_secs(10)).await; log.lock().unwrap().push(format!("woke at {}", SimTime::now())); }
            _ => { for i in 0..200 { let log = log.clone(); tokio::spawn(async move { log.lock().unwrap().push(format!("{i}@{}", SimTime::now())); }); } sleep(Duration::from_secs(5)).await; }
        }
    });
    current().join(h);
} }

fn main() {
    // D1
    let mut q: CQueue<u32> = CQueue::new(10, Duration::from_secs(1));
    let _h1 = q.add(Duration::from_millis(1500), 1); let h2 = q.add(Duration::from_millis(1500), 2);
    let _ = q.fetch_next(); q.cancel(h2);
    println!("D1 len after cancel (want 0): {}", q.len());
    // D2
    let log = Arc::new(Mutex::new(vec![]));
    let mut rt = Builder::seeded(1).quiet().start_time(10.0.into()).build(App(log.clone()));
    let r = catch_unwind(AssertUnwindSafe(|| rt.add_event(Ev(1), SimTime::from(5.0))));
    println!("D2 add before start accepted (want false): {}", r.is_ok());
    rt.add_event(Ev(2), SimTime::from(10.0)); rt.add_event_in(Ev(3), Duration::from_secs(1));
    println!("D2 run: {:?}", rt.run().map(|r| r.1));
    // D6
    let log = Arc::new(Mutex::new(vec![]));
    let mut rt = Builder::seeded(1).quiet().build(App(log.clone()));
    for i in 0..4 { rt.add_event(Ev(i), SimTime::ZERO); }
    rt.add_event(Ev(10), SimTime::from(10.0));
    rt.start(); rt.dispatch_n_events(1); rt.dispatch_n_events(1); rt.dispatch_events_until(SimTime::from(5.0));
    let r = catch_unwind(AssertUnwindSafe(|| rt.add_event(Ev(7), SimTime::from(7.0))));
    println!("D6 add at 7 while paused accepted (want true): {} remaining {}", r.is_ok(), rt.num_events_remaining());
    rt.dispatch_all(); let fin = rt.finish().map(|r| (r.1, r.2.event_count));
    println!("D6 order (want 0,1,2,3,7,10): {:?} {:?}", log.lock().unwrap().iter().map(|e| e.0).collect::<Vec<_>>(), fin);
    // limit put-back still fine
    let log = Arc::new(Mutex::new(vec![]));
    let mut rt = Builder::seeded(1).quiet().max_itr(2).build(App(log.clone()));
    for i in 0..4 { rt.add_event(Ev(i), SimTime::from(i as f64)); }
    let r = rt.run().unwrap();
    println!("limit: handled {:?} remaining {:?} end {}", log.lock().unwrap().iter().map(|e| e.0).collect::<Vec<_>>(), r.2.remaining.iter().map(|e| (e.0 .0, e.1)).collect::<Vec<_>>(), r.1);
    // D3/D4
    for mode in 0..3 {
        let log = Arc::new(Mutex::new(vec![]));
        let mut sim = Sim::new(()); sim.node("a", TM(log.clone(), mode));
        let r = Builder::seeded(1).quiet().build(sim.freeze()).run();
        let l = log.lock().unwrap();
        if mode < 2 { println!("D3/D4 mode {mode}: {:?} {:?}", l, r.map(|r| r.1).map_err(|e| e.to_string())); }
        else { println!("D4 200 tasks at 0 (want 200): {}", l.iter().filter(|s| s.ends_with("@0ns")).count()); }
    }
    // D5
    let log = Arc::new(Mutex::new(vec![]));
    let mut sim = Sim::new(());
    sim.node("a", TSend(vec![2000, 0, 0, 0], false)); sim.node("b", Recv(log.clone()));
    let ga = sim.gate("a", "out"); let gb = sim.gate("b", "in");
    ga.connect(gb, Some(Channel::new(ChannelMetrics::new(10_000_000_000_000, Duration::from_millis(10), Duration::ZERO, ChannelDropBehaviour::Queue(None)))));
    let _ = Builder::seeded(1).quiet().build(sim.freeze()).run();
    println!("D5 delivered (want 4): {}", log.lock().unwrap().len());
    // D10
    {
        let mut sim = Sim::new(());
        sim.node("a", TSend(vec![0; 5], true)); sim.node("b", Recv(Default::default()));
        let ga = sim.gate("a", "out"); let gb = sim.gate("b", "in");
        ga.connect(gb, Some(Channel::new(ChannelMetrics::new(8000, Duration::from_millis(10), Duration::ZERO, ChannelDropBehaviour::Queue(None)))));
        let r = Builder::seeded(1).quiet().max_itr(3).build(sim.freeze()).run();
        drop(r);
        println!("D10 live after drop (want 0): {}", LIVE.load(SeqCst));
    }
    // D7
    let cfg = Cfg::new(serde_yml::from_str("alicent.addr: 1\nalice.mac: 2\nalice.tcp.mss: 3\n").unwrap());
    println!("D7 alice keys (want mac,tcp.mss): {:?}", cfg.capture_for_into(&["alice"]).keys());
    let r = catch_unwind(|| { let cfg = Cfg::new(serde_yml::from_str("alé.addr: 1\nal.mac: 2\n").unwrap()); cfg.capture_for_into(&["al"]).keys() });
    println!("D7 non-ascii (want [mac]): {:?}", r.map_err(|_| "PANIC"));
    // D8
    for doc in [
        "entry: A\nmodules:\n  \"A(T <- I\": {}\n",
        "entry: A\nmodules:\n  A:\n    submodules:\n      x: \"G(H)\"\n  \"G(T <- I)\":\n    submodules:\n      y: T\n  I: {}\n  \"H(T <- I)\": {}\n",
        "entry: A\nmodules:\n  \"A(T <- I)\":\n    submodules:\n      x: \"G(T)\"\n  \"G(U <- I)\":\n    submodules:\n      y: U\n  I: {}\n",
    ] {
        let r = catch_unwind(AssertUnwindSafe(|| { let def: Result<Def, _> = serde_yml::from_str(doc); match def { Ok(def) => format!("{:?}", des_net_utils::ndl::transform(&def).map(|_| "ok").map_err(|e| e.to_string())), Err(e) => format!("parse error: {e}") } }));
        println!("D8: {:?}", r.map_err(|_| "PANIC"));
    }
    // D9
    let mut sim = Sim::new(());
    for n in ["a", "b", "c", "d"] { sim.node(n, Dummy); }
    let con = |sim: &mut SimBuilder<()>, x: &str, y: &str| { let g1 = sim.get(&x.into()).unwrap().create_gate(&format!("to_{y}")); let g2 = sim.get(&y.into()).unwrap().create_gate(&format!("to_{x}")); g1.connect(g2, None); };
    con(&mut sim, "a", "b"); con(&mut sim, "a", "c"); con(&mut sim, "b", "c"); con(&mut sim, "a", "d");
    let topo = sim.globals().topology();
    for (k, e) in topo.dijkstra("a").iter() { println!("D9 dijkstra a -> {k}: first hop -> {}", e.to.module().path()); }
    let sp = Topology::spanned(sim.get(&"a".into()).unwrap());
    let bad = sp.edges().filter(|e| e.from.gate().owner().path() != e.from.module().path() || e.to.gate().owner().path() != e.to.module().path()).count();
    println!("D9 spanned mislabelled edges (want 0): {bad} of {}", sp.edges().count());
}
