#!/usr/bin/env python3
"""Writes /verif/MANIFEST.json from tools/properties.py (single source of truth for the checks)."""
import json, os, subprocess, sys

VERIF = os.path.dirname(os.path.dirname(os.path.abspath(__file__)))
sys.path.insert(0, os.path.join(VERIF, "tools"))
from properties import PROPERTIES  # noqa: E402

ALL = [f"C{i:02d}" for i in range(1, 21)]

TEXT = {
    "C01": ("Runtime monitoring of the real CQueue against a multiset reference model with a structural invariant walk after the operations, over "
            "millions of adaptive histories and a complete small-scope enumeration; the same driver runs under Miri (quick) and ASan (thorough). "
            "Right level: the property quantifies over histories/configurations of a small data structure with unsafe internals, which is exactly what "
            "a model-based online checker plus sanitizers observes."),
    "C02": ("Every clock write is observed at its single writer (hook) and every handler compares SimTime::now() with the timestamp it was scheduled "
            "for, over generated event forests x start times x queue parameters, including attempted insertions in the past under catch_unwind; a "
            "reference model predicts the whole dispatch sequence. Held on the executions produced, on both event-set backends at thorough."),
    "C03": ("Exact sequential model of the stated tie rule checked online against CQueue (queue level), against Runtime event programs and, at the net "
            "level, order invariants that follow from the rule for any internal event structure; plus metamorphic replays (other queue parameters, "
            "unrelated events, allocation history) and a complete small-scope enumeration."),
    "C04": ("Differential runs of the real simulator: the same (model, seed) executed twice back to back, after a foreign simulation, and in a separate "
            "process with a different heap layout must give byte-identical traces (deliveries, draws, select branches, timer completions, final "
            "counters); models are counted only if their trace changes with the seed. Reproducibility is a relation between executions, which only "
            "running them decides."),
    "C05": ("Generated timer scripts run on the real async time driver; every await logs virtual time and outcome and is compared with a reference "
            "interpreter in virtual time (equal, never earlier or later), plus the slot invariant at a hook after every module event (a live timer "
            "always has a wake-up at or before its deadline). Small scripts also under Miri."),
    "C06": ("Tasks log SimTime::now() right after every await whose enabling instant is known by construction; workloads push the per-instant "
            "population across the executor budgets (61 polls, coop budget) for tokio::spawn and spawn_local, through timers, notify, channels, "
            "semaphores, join handles and messages consumed by processing elements. Decided in virtual time only."),
    "C07": ("Every offer and arrival on a real channel is logged together with the channel's own state (hook) and judged by an independent channel "
            "automaton with exact integer arithmetic: exactly-once, drop rules, busy period, FIFO start instants, arrival = start + tx + latency "
            "(+jitter range), order at zero jitter, nothing stuck at the end; random traffic plus an enumerated limit-boundary grid."),
    "C08": ("Declared gate chains are the reference: structure API (kinds, walks from both ends, idempotence, third-peer rejection) and every "
            "delivery (exactly once, right module, exact time, header ids, last gate) are compared with it, with the connect calls issued in every "
            "permutation / orientation for short chains."),
    "C09": ("Fault enumeration over shutdown / restart requests and their placements (handler or task, restart never / delayed / at an instant, "
            "requests while down, coinciding victims, arrivals on boundary instants): one global callback log is judged against the statement "
            "evaluated over the down intervals - nothing of the victim between reset and restart, start stages once at the restart instant, "
            "in-flight and transit traffic dropped iff the victim is down."),
    "C10": ("Differential + model: stepped executions of event programs (every composition into <= 3 steps and every until-cut for small programs) "
            "against the uninterrupted run and an exact reference of per-step counts, paused time, remaining and dispatched, with external adds while "
            "paused. Both backends at thorough."),
    "C11": ("An independent limit-tree evaluator predicts the stop index on the sequence of the unlimited run; the limited run of the real runtime "
            "must have handled exactly that prefix, report that count and end time, and return exactly the pending rest as remaining (multiset with "
            "timestamps); every count and every time gap for small programs, random And/Or trees otherwise."),
    "C12": ("The declared module tree alone predicts the start sequence (stage-major x depth-first pre-order, siblings in creation order), the "
            "tear-down set, and what current()/parent()/child() show inside callbacks; every valid insertion order for small trees; builder "
            "rejections under catch_unwind; ObjectPath against string splitting."),
    "C13": ("Fault enumeration: every single panic placement (module x callback kind x occurrence x stereotype, joined-task steps) and pairs, each "
            "executed as panic (A) and as fall-silent (B) twin of the same model; A must return, attribute exactly the uncaught faults, leave every "
            "other module's log equal to B, deactivate the faulty module, leave the statics clean and let a follow-up simulation reproduce its "
            "reference trace. A dead worker process counts as violation."),
    "C14": ("All processing hooks, handlers and wake-ups log into one sequence that is parsed by a bracket grammar per module event (start order, "
            "incoming chain with tags, consumer stops the chain, handler iff not consumed, ends in reverse order, no foreign hook inside), for "
            "message, start, restart, wake-up and tear-down events; messages emitted from hooks must arrive in program order."),
    "C15": ("Allocator shadow map fed by an observer hook (every allocation: aligned, inside one owned page, disjoint from live regions; exact frees; "
            "pages released once), bit patterns of every fetched payload and an exactly-once drop registry over ten payload types and six page sizes; "
            "the same histories under Miri, ASan and valgrind memcheck for out-of-bounds / use-after-free / double free of heap-owning payloads."),
    "C16": ("Shadow typed model per message over 29 body types (layout twins, zero-sized, non-clonable, derived structs / enums / generics) checked "
            "after every operation of random create / replace / clone / probe / cast / drop sequences, identity registry for exactly-once drops, "
            "hand-written length reference tied to channel transmission times; the same sequences under Miri and ASan."),
    "C17": ("Independent matcher over dotted keys with wildcards decides for every (configuration, module path) the exact key set and admissible "
            "values; compared with Cfg directly and with a real simulation builder in both include orders; typed read sequences pin the stored "
            "type. One known finding is recorded by signature."),
    "C18": ("Grammar-based generator of valid descriptions, an independent reference elaborator (inheritance, clusters, generics, connection "
            "expansion) and the built simulation observed through its public API (modules with registered symbols, gate clusters, both connection "
            "slots with link parameters) must agree exactly; 23 single-point mutation operators must never crash and structural mutants must be "
            "rejected with a descriptive error. ASan at thorough (YAML parser included)."),
    "C19": ("Reference digraph from the declared wiring plus BFS decides node / edge multisets of the global, spanned (every root), node- and "
            "edge-filtered views, connected / bidirectional, and that every dijkstra entry is the first edge of a minimum-hop path (every source)."),
    "C20": ("Identity tokens in module state, task captures, message bodies (event set, channel queues, remaining list), processing elements and "
            "probes: after dropping whatever the stop point returned every token was dropped exactly once and none is alive, the process-global "
            "statics are clean and a follow-up simulation reproduces its fresh-process trace; stop points include every event-limit prefix of small "
            "models. ASan and (reduced) Miri at thorough."),
}

TECHNIQUE = {
    "C01": "model-based runtime monitor + structural invariant hook + Miri/ASan",
    "C02": "clock-writer hook + handler-side assertions + reference model",
    "C03": "exact-order reference model monitor + metamorphic replays + net-level order invariants",
    "C04": "differential trace comparison (in-process and cross-process)",
    "C05": "reference interpreter in virtual time + timer-slot invariant hook + Miri",
    "C06": "enabling-instant assertions over task storms",
    "C07": "offline check of offer/arrival logs against an exact channel automaton + channel-state hook",
    "C08": "declared-structure reference + delivery log checker, enumerated connect orders",
    "C09": "fault enumeration (shutdown/restart placements) + global callback log checked against down intervals",
    "C10": "differential (stepped vs uninterrupted) + exact step model",
    "C11": "independent limit evaluator over the unlimited run's sequence",
    "C12": "callback-order log checked against the declared tree",
    "C13": "fault enumeration (panic placements) + panic/silent twin differential + follow-up simulation",
    "C14": "bracket-grammar checker over the hook log",
    "C15": "allocator shadow-map monitor (observer hook) + drop registry + Miri/ASan/memcheck",
    "C16": "shadow typed model + identity registry + Miri/ASan",
    "C17": "independent matcher as reference model",
    "C18": "generator + reference elaborator + mutation operators (no-crash oracle) + ASan",
    "C19": "reference digraph + BFS oracle",
    "C20": "identity-token registry (exactly-once drop) + statics hook + follow-up simulation + ASan/Miri",
}

NOT_YET = "monitor not built yet in this round (see DESIGN.md section 5 for the design); not claimed until its check exists"


def main():
    hooks_commits = []
    try:
        out = subprocess.run(["git", "-C", "/repo", "log", "--format=%h %s"], capture_output=True, text=True).stdout
        hooks_commits = [l.split()[0] for l in out.splitlines() if l.split(" ", 1)[1].startswith("verif hooks")]
    except Exception:
        pass
    checks = []
    for pid in ALL:
        if pid not in PROPERTIES:
            continue
        spec = PROPERTIES[pid]
        modes = sorted({s.get("mode", "native") for s in spec["stages"]})
        checks.append({
            "property_id": pid,
            "quick_cmd": f"./check {pid} quick",
            "thorough_cmd": f"./check {pid} thorough",
            "evidence_file": f"/verif/evidence/{pid}.json",
            "replay_cmd_template": "./check replay {path}",
            "engine": "monitor",
            "level_claimed": {
                "category": spec.get("level", "exploration"),
                "text": TEXT.get(pid, spec["rule"]),
                "design_ref": f"DESIGN.md section 5, {pid}",
            },
            "level_note": "; ".join(spec.get("assumptions", [])) or "observations are limited to the executions the workloads produce",
            "technique": TECHNIQUE.get(pid, "runtime monitor") + f" (stages: {', '.join(modes)})",
        })
    manifest = {
        "version": 1,
        "setup_cmd": "./check setup",
        "hooks": {
            "guard": "petrichorit_des_verif",
            "enable": "RUSTFLAGS / monitor/.cargo/config.toml: --cfg petrichorit_des_verif (plus --cfg tokio_unstable which des itself needs); "
                      "the monitors in /verif/monitor depend on /repo by path, so every check rebuilds /repo's working tree with the hooks on",
            "baseline_off_cmd": "/verif/tools/repo_tests.sh",
            "source_commits": hooks_commits,
            "add_only": True,
        },
        "engines": [
            {"name": "monitor", "path": "/verif/monitor", "serves_properties": [c["property_id"] for c in checks],
             "kind_free_text": "Rust workspace with the monitor binaries (cqmon: calendar queue; desmon: simulator), orchestrated by /verif/check "
                               "(sharded worker processes, Miri / ASan / valgrind stages, coverage floors, known-findings file)"},
        ],
        "checks": checks,
        "not_applicable": [{"property_id": pid, "reason": NOT_YET} for pid in ALL if pid not in PROPERTIES],
        "notes": "Verdicts are three-valued: exit 0 held on what was observed (coverage floor met), exit 1 + VIOLATION line, exit 3 + INCONCLUSIVE line. "
                 "KNOWN_FINDINGS.json lists genuine defects (fixed: fourteen fix: commits in /repo; known: one C17 shape, printed as KNOWN-FINDING).",
    }
    with open(os.path.join(VERIF, "MANIFEST.json"), "w") as f:
        json.dump(manifest, f, indent=1)
    print(f"MANIFEST.json: {len(checks)} checks, {len(manifest['not_applicable'])} not claimed")


if __name__ == "__main__":
    main()
