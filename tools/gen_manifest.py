#!/usr/bin/env python3
"""Writes /verif/MANIFEST.json from tools/properties.py (single source of truth for the checks)."""
import json, os, subprocess, sys

VERIF = os.path.dirname(os.path.dirname(os.path.abspath(__file__)))
sys.path.insert(0, os.path.join(VERIF, "tools"))
from properties import PROPERTIES  # noqa: E402

ALL = [f"C{i:02d}" for i in range(1, 21)]

TEXT = {
    "C01": ("Runtime monitoring of the real CQueue against a multiset reference model with a structural invariant walk after the operations, over "
            "millions of adaptive histories and a complete small-scope enumeration; the same driver runs under Miri (quick) and ASan (thorough). "
            "Right level: the property quantifies over histories/configurations of a small data structure with unsafe internals, which is exactly what "
            "a model-based online checker plus sanitizers observes."),
    "C03": ("Exact sequential model of the stated tie rule checked online against CQueue (queue level), against Runtime event programs and against "
            "net-level message bursts, plus metamorphic replays (other queue parameters, unrelated events, allocation history) and a complete "
            "small-scope enumeration."),
    "C15": ("Allocator shadow map fed by an observer hook (every allocation: aligned, inside one owned page, disjoint from live regions; exact frees; "
            "pages released once), bit patterns of every fetched payload and an exactly-once drop registry over ten payload types and six page sizes; "
            "the same histories under Miri, ASan and valgrind memcheck for out-of-bounds / use-after-free / double free of heap-owning payloads."),
}

TECHNIQUE = {
    "C01": "model-based runtime monitor + structural invariant hook + Miri/ASan",
    "C03": "exact-order reference model monitor + metamorphic replays",
    "C15": "allocator shadow-map monitor (observer hook) + drop registry + Miri/ASan/memcheck",
}

NOT_YET = "monitor not built yet in this round (see DESIGN.md section 5 for the design); not claimed until its check exists"


def main():
    hooks_commits = []
    try:
        out = subprocess.run(["git", "-C", "/repo", "log", "--format=%h %s"], capture_output=True, text=True).stdout
        hooks_commits = [l.split()[0] for l in out.splitlines() if l.split(" ", 1)[1].startswith("verif hooks")]
    except Exception:
        pass
    checks = []
    for pid in ALL:
        if pid not in PROPERTIES:
            continue
        spec = PROPERTIES[pid]
        modes = sorted({s.get("mode", "native") for s in spec["stages"]})
        checks.append({
            "property_id": pid,
            "quick_cmd": f"./check {pid} quick",
            "thorough_cmd": f"./check {pid} thorough",
            "evidence_file": f"/verif/evidence/{pid}.json",
            "replay_cmd_template": "./check replay {path}",
            "engine": "monitor",
            "level_claimed": {
                "category": spec.get("level", "exploration"),
                "text": TEXT.get(pid, spec["rule"]),
                "design_ref": f"DESIGN.md section 5, {pid}",
            },
            "level_note": "; ".join(spec.get("assumptions", [])) or "observations are limited to the executions the workloads produce",
            "technique": TECHNIQUE.get(pid, "runtime monitor") + f" (stages: {', '.join(modes)})",
        })
    manifest = {
        "version": 1,
        "setup_cmd": "./check setup",
        "hooks": {
            "guard": "petrichorit_des_verif",
            "enable": "RUSTFLAGS / monitor/.cargo/config.toml: --cfg petrichorit_des_verif (plus --cfg tokio_unstable which des itself needs); "
                      "the monitors in /verif/monitor depend on /repo by path, so every check rebuilds /repo's working tree with the hooks on",
            "baseline_off_cmd": "/verif/tools/repo_tests.sh",
            "source_commits": hooks_commits,
            "add_only": True,
        },
        "engines": [
            {"name": "monitor", "path": "/verif/monitor", "serves_properties": [c["property_id"] for c in checks],
             "kind_free_text": "Rust workspace with the monitor binaries (cqmon: calendar queue; desmon: simulator), orchestrated by /verif/check "
                               "(sharded worker processes, Miri / ASan / valgrind stages, coverage floors, known-findings file)"},
        ],
        "checks": checks,
        "not_applicable": [{"property_id": pid, "reason": NOT_YET} for pid in ALL if pid not in PROPERTIES],
        "notes": "Verdicts are three-valued: exit 0 held on what was observed (coverage floor met), exit 1 + VIOLATION line, exit 3 + INCONCLUSIVE line. "
                 "KNOWN_FINDINGS.json lists genuine defects (fixed: ten fix: commits in /repo; known: printed as KNOWN-FINDING).",
    }
    with open(os.path.join(VERIF, "MANIFEST.json"), "w") as f:
        json.dump(manifest, f, indent=1)
    print(f"MANIFEST.json: {len(checks)} checks, {len(manifest['not_applicable'])} not claimed")


if __name__ == "__main__":
    main()
