#!/usr/bin/env python3
"""Development aid: renders the seeded-change table of DESIGN.md section 7.2 from seeded/*/meta.json and trial.json
(between the markers <!-- MATRIX:BEGIN --> and <!-- MATRIX:END -->)."""
import json, os, re

VERIF = os.path.dirname(os.path.dirname(os.path.abspath(__file__)))
SEEDED = os.path.join(VERIF, "seeded")


def short(s, n):
    s = " ".join(s.split())
    return s if len(s) <= n else s[: n - 1] + "…"


def main():
    rows = []
    caught = missed = outside = 0
    for sid in sorted(os.listdir(SEEDED)):
        d = os.path.join(SEEDED, sid)
        if not os.path.exists(os.path.join(d, "patch.diff")):
            continue
        meta = json.load(open(os.path.join(d, "meta.json"))) if os.path.exists(os.path.join(d, "meta.json")) else {}
        trials = json.load(open(os.path.join(d, "trial.json"))) if os.path.exists(os.path.join(d, "trial.json")) else {}
        files = sorted(set(re.findall(r"^\+\+\+ b/(\S+)", open(os.path.join(d, "patch.diff")).read(), re.M)))
        got = []
        for name, t in sorted(trials.items()):
            if t.get("caught"):
                got.append(f"{name}: " + ", ".join(f"`{s}`" for s in t.get("signatures", [])[:4]))
        own = meta.get("property", sid.split("-")[0])
        own_caught = any(t.get("caught") and name.startswith(own) for name, t in trials.items())
        any_caught = bool(got)
        oos = bool(meta.get("out_of_scope"))
        if trials and not oos:
            if any_caught:
                caught += 1
            else:
                missed += 1
        if oos:
            outside += 1
        status = "—" if not trials else ("; ".join(got) if got else ("not reported (outside the statement)" if oos else "**not caught**"))
        note = meta.get("note", "")
        rows.append(f"| `{sid}` | {own} | {short(meta.get('breaks', ''), 230)} | {', '.join('`' + os.path.basename(f) + '`' for f in files)} | {status}{' — ' + note if note else ''} |")
    table = ["| seeded change | targets | what it breaks | file | caught by (signatures) |", "|---|---|---|---|---|"] + rows
    table.append("")
    table.append(f"{caught} of {caught + missed} tried seeded changes are reported by at least one check (quick tier)"
                 + (f"; {outside} further change(s) lie outside the statement they were aimed at and are not judged." if outside else "."))
    text = "\n".join(table)
    p = os.path.join(VERIF, "DESIGN.md")
    s = open(p).read()
    if "@@MATRIX@@" in s:
        s = s.replace("@@MATRIX@@", "<!-- MATRIX:BEGIN -->\n" + text + "\n<!-- MATRIX:END -->")
    else:
        s = re.sub(r"<!-- MATRIX:BEGIN -->.*?<!-- MATRIX:END -->", lambda m: "<!-- MATRIX:BEGIN -->\n" + text + "\n<!-- MATRIX:END -->", s, flags=re.S)
    open(p, "w").write(s)
    print(f"{len(rows)} rows, {caught} caught, {missed} missed")


if __name__ == "__main__":
    main()
