"""Per-property stage tables of ./check.

A stage = one monitor binary (crate, build mode, optional feature set) run as N sharded worker
processes with a sub-command. `floor` = minimum observation counts a run must reach to be allowed
to say "held" (otherwise it is inconclusive); the counters are measured by the workers.
"""

QT = ["quick", "thorough"]
T = ["thorough"]


def native(name, crate, cmd, **kw):
    d = {"name": name, "crate": crate, "cmd": cmd, "mode": "native"}
    d.update(kw)
    return d


PROPERTIES = {
    "C01": {
        "level": "exploration",
        "rule": ("adaptive random add/cancel/fetch histories on CQueue over (n,t) in {1,2,3,7,10,32,1024,1028} x {1ns..3s} with times chosen relative "
                 "to the queue time (zero bucket, bucket and year boundaries, ties, far outliers), plus every operation sequence of the enumeration "
                 "depth over add(+0,1,2,3,4,8 ns)/cancel(any handle)/fetch on 4 tiny configurations; oracle = multiset model + structure walk (hook H1) "
                 "+ scan bound (H7). A history is non-trivial if it fetched at least once and cancelled a pending event or fetched from a tie group; "
                 "distinct = distinct hash of (config, operation list)."),
        "exhaustive_part": "all operation sequences of length enumeration_depth over the stated alphabet on (n,t) in {(1,1),(2,1),(2,2),(3,2)} ns",
        "assumptions": ["hooks H1/H7 report the real structure (they are read-only walks over the same fields the queue uses)",
                        "Miri runs without an aliasing model (see DESIGN.md section 4)"],
        "stages": [
            native("random+enum", "cqmon", "c01", tiers=QT,
                   timeout={"quick": 900, "thorough": 5400}),
            {"name": "miri", "crate": "cqmon", "cmd": "c01", "mode": "miri", "tiers": QT,
             "shards": {"quick": 16, "thorough": 16},
             "args": {"quick": ["--budget", "14", "len=120", "small=1"], "thorough": ["--budget", "150", "len=300", "small=1"]},
             "timeout": {"quick": 1200, "thorough": 5400}, "counter_prefix": "miri_"},
            {"name": "asan", "crate": "cqmon", "cmd": "c01", "mode": "asan", "tiers": T,
             "args": {"thorough": ["--budget", "6000"]},
             "timeout": {"thorough": 3600}, "counter_prefix": "asan_"},
        ],
        "floor": {
            "quick": {"fetches": 100000, "cancels_of_pending": 10000, "cancels_of_fetched": 10000,
                      "cancels_of_pending_tie_with_current_time_in_bucket": 500, "adds_at_current_time": 10000,
                      "fetches_from_a_tie_group": 10000, "year_wraps": 5000, "rejected_past_adds": 2000,
                      "enumerated_sequences": 1000000, "miri_fetches": 500},
            "thorough": {"fetches": 2000000, "cancels_of_pending": 200000, "cancels_of_fetched": 200000,
                         "cancels_of_pending_tie_with_current_time_in_bucket": 10000, "adds_at_current_time": 200000,
                         "fetches_from_a_tie_group": 200000, "year_wraps": 100000, "rejected_past_adds": 40000,
                         "enumerated_sequences": 50000000, "miri_fetches": 5000, "asan_fetches": 100000},
        },
    },
    "C03": {
        "level": "exploration",
        "rule": ("tie-heavy adaptive histories on CQueue (bursts of equal timestamps, adds at the current instant from between fetches, ties straddling a year "
                 "wrap) checked against an exact sequential model of the stated rule (current-instant group first in scheduling order, then scheduling order), "
                 "metamorphic replays of the same history on other (n,t), with an unrelated far-future population and after a junk allocation phase, and every "
                 "operation sequence of the enumeration depth on 4 tiny configurations. Non-trivial = a fetch was served from a group of >= 2 equal timestamps; "
                 "distinct = hash of (config, operation list)."),
        "exhaustive_part": "all operation sequences of length enumeration_depth over add(+0,1,2,3,4,8 ns)/cancel/fetch on (n,t) in {(1,1),(2,1),(2,2),(3,2)} ns",
        "assumptions": ["claimed for the default feature set (calendar-queue backend), as the property states"],
        "stages": [
            native("queue", "cqmon", "c03", tiers=QT, timeout={"quick": 900, "thorough": 5400}),
        ],
        "floor": {
            "quick": {"fetches_from_a_tie_group": 100000, "adds_at_current_time": 50000, "year_wraps": 5000, "metamorphic_replays": 3000,
                      "enumerated_sequences": 1000000},
            "thorough": {"fetches_from_a_tie_group": 2000000, "adds_at_current_time": 1000000, "year_wraps": 100000, "metamorphic_replays": 60000,
                         "enumerated_sequences": 50000000},
        },
    },
    "C15": {
        "level": "exploration",
        "rule": ("adaptive random add/cancel/fetch/drop histories on CQueue<P> for 10 payload types (1 B .. 2 KiB, align 1..16, with/without destructor, "
                 "zero sized, heap owning) x allocator page sizes {256..65536 that fit the node, system default} x (n,t); oracles = allocator shadow map fed by "
                 "hook H3 (alignment, in-page, disjoint from live regions, exact frees, pages released once), node addresses of the structure walk must be "
                 "live regions, bit pattern of every fetched payload, drop registry (exactly once: caller after fetch / cancel / queue drop / rejected add). "
                 "Non-trivial = history fetched and cancelled or hit a tie; distinct = hash of (config, payload type, operation list)."),
        "assumptions": ["the allocator observer H3 is called on every allocation path (a path that bypasses it is only visible through payload patterns)",
                        "Miri without aliasing model; ASan / memcheck see an allocator page as one block"],
        "stages": [
            native("shadow", "cqmon", "c15", tiers=QT, timeout={"quick": 900, "thorough": 5400}),
            {"name": "miri", "crate": "cqmon", "cmd": "c15", "mode": "miri", "tiers": QT,
             "shards": {"quick": 16, "thorough": 16},
             "args": {"quick": ["--budget", "12", "len=100", "small=1"], "thorough": ["--budget", "120", "len=250", "small=1"]},
             "timeout": {"quick": 1200, "thorough": 5400}, "counter_prefix": "miri_"},
            {"name": "asan", "crate": "cqmon", "cmd": "c15", "mode": "asan", "tiers": T,
             "args": {"thorough": ["--budget", "5000"]},
             "timeout": {"thorough": 3600}, "counter_prefix": "asan_"},
            {"name": "memcheck", "crate": "cqmon", "cmd": "c15", "mode": "valgrind", "tiers": T,
             "args": {"thorough": ["--budget", "150", "len=1500", "small=1"]},
             "timeout": {"thorough": 3600}, "counter_prefix": "memcheck_"},
        ],
        "floor": {
            "quick": {"allocator_allocs": 300000, "allocator_address_reuses": 100000, "max_pages_of_one_queue": 20,
                      "events_pending_at_queue_drop": 50000, "cancels_of_pending": 20000, "fetches": 100000,
                      "rejected_past_adds": 1000, "miri_fetches": 300},
            "thorough": {"allocator_allocs": 10000000, "allocator_address_reuses": 3000000, "max_pages_of_one_queue": 100,
                         "events_pending_at_queue_drop": 1000000, "cancels_of_pending": 500000, "fetches": 3000000,
                         "rejected_past_adds": 20000, "miri_fetches": 3000, "asan_fetches": 100000, "memcheck_fetches": 20000},
        },
    },
}
