"""Per-property stage tables of ./check.

A stage = one monitor binary (crate, build mode, optional feature set) run as N sharded worker
processes with a sub-command. `floor` = minimum observation counts a run must reach to be allowed
to say "held" (otherwise it is inconclusive); the counters are measured by the workers.
"""

QT = ["quick", "thorough"]
T = ["thorough"]


def native(name, crate, cmd, **kw):
    d = {"name": name, "crate": crate, "cmd": cmd, "mode": "native"}
    d.update(kw)
    return d


PROPERTIES = {
    "C01": {
        "level": "exploration",
        "rule": ("adaptive random add/cancel/fetch histories on CQueue over (n,t) in {1,2,3,7,10,32,1024,1028} x {1 ns..3 s, 2^61 ns, 2^62+12345 ns (timestamps beyond 2^64 ns)} with times chosen relative "
                 "to the queue time (zero bucket, bucket and year boundaries, ties, far outliers), plus every operation sequence of the enumeration "
                 "depth over add(+0,1,2,3,4,8 ns)/cancel(any handle)/fetch on 4 tiny configurations; oracle = multiset model + structure walk (hook H1) "
                 "+ scan bound (H7). A history is non-trivial if it fetched at least once and cancelled a pending event or fetched from a tie group; "
                 "distinct = distinct hash of (config, operation list)."),
        "exhaustive_part": "all operation sequences of length enumeration_depth over the stated alphabet on (n,t) in {(1,1),(2,1),(2,2),(3,2)} ns",
        "assumptions": ["hooks H1/H7 report the real structure (they are read-only walks over the same fields the queue uses)",
                        "Miri runs without an aliasing model (see DESIGN.md section 4)"],
        "stages": [
            native("random+enum", "cqmon", "c01", tiers=QT,
                   timeout={"quick": 900, "thorough": 5400}),
            {"name": "miri", "crate": "cqmon", "cmd": "c01", "mode": "miri", "tiers": QT,
             "shards": {"quick": 16, "thorough": 16},
             "args": {"quick": ["--budget", "14", "len=120", "small=1"], "thorough": ["--budget", "150", "len=300", "small=1"]},
             "timeout": {"quick": 1200, "thorough": 5400}, "counter_prefix": "miri_"},
            {"name": "asan", "crate": "cqmon", "cmd": "c01", "mode": "asan", "tiers": T,
             "args": {"thorough": ["--budget", "6000"]},
             "timeout": {"thorough": 3600}, "counter_prefix": "asan_"},
        ],
        "floor": {
            "quick": {"fetches": 100000, "cancels_of_pending": 10000, "cancels_of_fetched": 10000,
                      "cancels_of_pending_tie_with_current_time_in_bucket": 500, "adds_at_current_time": 10000,
                      "fetches_from_a_tie_group": 10000, "year_wraps": 5000, "rejected_past_adds": 2000,
                      "enumerated_sequences": 1000000, "miri_fetches": 500},
            "thorough": {"fetches": 2000000, "cancels_of_pending": 200000, "cancels_of_fetched": 200000,
                         "cancels_of_pending_tie_with_current_time_in_bucket": 10000, "adds_at_current_time": 200000,
                         "fetches_from_a_tie_group": 200000, "year_wraps": 100000, "rejected_past_adds": 40000,
                         "enumerated_sequences": 50000000, "miri_fetches": 5000, "asan_fetches": 100000},
        },
    },
    "C03": {
        "level": "exploration",
        "rule": ("tie-heavy adaptive histories on CQueue (bursts of equal timestamps, adds at the current instant from between fetches, ties straddling a year "
                 "wrap) checked against an exact sequential model of the stated rule (current-instant group first in scheduling order, then scheduling order), "
                 "metamorphic replays of the same history on other (n,t), with an unrelated far-future population and after a junk allocation phase, and every "
                 "operation sequence of the enumeration depth on 4 tiny configurations; the same model on Runtime<App> event forests (stage runtime), every third of them also on a runtime that is paused and resumed (random n-event / until-time steps, with and without events added from outside while paused - pausing inside a group of equal timestamps or in front of one must not reorder anything); and at the net "
                 "level (stage net) rings of 1..4 modules executing generated emission trees (schedule_at / schedule_in / send / send_at / send_in over "
                 "channel-less chains with 0..2 transit gates, target instants on a coarse grid aligned with bucket / year boundaries): messages scheduled from "
                 "earlier instants for one instant are handled in scheduling order, everything a message triggers within its instant is handled before the next "
                 "such message, same-path emissions for the current instant keep their order, each message exactly once at its instant, and the whole handling "
                 "order is identical under 2 other queue parameterisations, with bystander modules / events and after a junk allocation phase. "
                 "Non-trivial = a fetch was served from a group of >= 2 equal timestamps (net: a case with an ordered pair to judge); "
                 "distinct = hash of (config, operation list) / of the case."),
        "exhaustive_part": "all operation sequences of length enumeration_depth over add(+0,1,2,3,4,8 ns)/cancel/fetch on (n,t) in {(1,1),(2,1),(2,2),(3,2)} ns",
        "assumptions": ["claimed for the default feature set (calendar-queue backend), as the property states"],
        "stages": [
            native("queue", "cqmon", "c03", tiers=QT, timeout={"quick": 900, "thorough": 5400}),
            native("runtime", "desmon", "c03rt", tiers=QT, timeout={"quick": 900, "thorough": 5400}, counter_prefix="rt_"),
            native("net", "desmon", "c03net", tiers=QT, timeout={"quick": 900, "thorough": 5400}),
        ],
        "floor": {
            "quick": {"fetches_from_a_tie_group": 100000, "adds_at_current_time": 50000, "year_wraps": 5000, "metamorphic_replays": 3000,
                      "enumerated_sequences": 1000000, "rt_tie_groups_dispatched": 100000, "rt_metamorphic_replays": 5000,
                      "rt_stepped_executions_checked_for_order": 40000, "rt_pauses_inside_a_group_of_equal_timestamps": 20000,
                      "net_root_pairs_same_instant": 1000000, "net_zero_delay_followups_before_next_root": 1000000, "net_current_instant_pairs": 1000000},
            "thorough": {"fetches_from_a_tie_group": 2000000, "adds_at_current_time": 1000000, "year_wraps": 100000, "metamorphic_replays": 60000,
                         "enumerated_sequences": 50000000, "rt_tie_groups_dispatched": 2000000, "rt_metamorphic_replays": 100000,
                         "rt_stepped_executions_checked_for_order": 600000, "rt_pauses_inside_a_group_of_equal_timestamps": 300000,
                         "net_root_pairs_same_instant": 20000000, "net_zero_delay_followups_before_next_root": 20000000, "net_current_instant_pairs": 20000000},
        },
    },
    "C15": {
        "level": "exploration",
        "crash_is_violation": True,
        "rule": ("adaptive random add/cancel/fetch/drop histories on CQueue<P> for 10 payload types (1 B .. 2 KiB, align 1..16, with/without destructor, "
                 "zero sized, heap owning) x allocator page sizes {256..65536 that fit the node, system default} x (n,t); oracles = allocator shadow map fed by "
                 "hook H3 (alignment, in-page, disjoint from live regions, exact frees, pages released once), node addresses of the structure walk must be "
                 "live regions, bit pattern of every fetched payload, drop registry (exactly once: caller after fetch / cancel / queue drop / rejected add). "
                 "Non-trivial = history fetched and cancelled or hit a tie; distinct = hash of (config, payload type, operation list)."),
        "assumptions": ["the allocator observer H3 is called on every allocation path (a path that bypasses it is only visible through payload patterns)",
                        "Miri without aliasing model; ASan / memcheck see an allocator page as one block"],
        "stages": [
            native("shadow", "cqmon", "c15", tiers=QT, timeout={"quick": 900, "thorough": 5400}),
            {"name": "miri", "crate": "cqmon", "cmd": "c15", "mode": "miri", "tiers": QT,
             "shards": {"quick": 16, "thorough": 16},
             "args": {"quick": ["--budget", "12", "len=100", "small=1"], "thorough": ["--budget", "120", "len=250", "small=1"]},
             "timeout": {"quick": 1200, "thorough": 5400}, "counter_prefix": "miri_"},
            {"name": "asan", "crate": "cqmon", "cmd": "c15", "mode": "asan", "tiers": T,
             "args": {"thorough": ["--budget", "5000"]},
             "timeout": {"thorough": 3600}, "counter_prefix": "asan_"},
            {"name": "memcheck", "crate": "cqmon", "cmd": "c15", "mode": "valgrind", "tiers": T,
             "args": {"thorough": ["--budget", "3000", "len=1500", "small=1"]},
             "timeout": {"thorough": 3600}, "counter_prefix": "memcheck_"},
        ],
        "floor": {
            "quick": {"allocator_allocs": 300000, "allocator_address_reuses": 100000, "max_pages_of_one_queue": 20,
                      "events_pending_at_queue_drop": 50000, "cancels_of_pending": 20000, "fetches": 100000,
                      "rejected_past_adds": 1000, "miri_fetches": 300},
            "thorough": {"allocator_allocs": 10000000, "allocator_address_reuses": 3000000, "max_pages_of_one_queue": 100,
                         "events_pending_at_queue_drop": 1000000, "cancels_of_pending": 500000, "fetches": 3000000,
                         "rejected_past_adds": 20000, "miri_fetches": 3000, "asan_fetches": 100000, "memcheck_fetches": 20000},
        },
    },
    "C02": {
        "level": "exploration",
        "rule": ("generated event forests on Runtime<App> (1..2000 events, branching <= 5, delays 0 / 1 ns / around bucket and year boundaries / random, shared "
                 "delays producing equal timestamps, add_event and add_event_in - also for the events scheduled before the run and in at_sim_start) x start times (0, 1 ns, bucket / year multiples, 10 s, 1e6 s, and - on one-hour buckets - 1e7 s + 1 ns and 4e8 s + 3 ns, late in a long run where nanosecond timestamps have no exact f64 image; where the scan "
                 "from zero stays bounded) x calendar-queue parameters (and the default ones); every handler logs (id, scheduled, SimTime::now()), attempts "
                 "add_event in the past under catch_unwind on marked events, the clock writer is observed through hook H4 and the event set is walked "
                 "through H6; every third program is additionally driven in random n-event / until-time steps, and after every step add_event(sim_time() - 1 ns) "
                 "is attempted on the paused runtime (half of these stepped runs also add events from outside while paused, at / after the reported time). Oracle: now == scheduled, non-decreasing, each event exactly once, every add at/after now accepted, every "
                 "add before now / before the start time / before the time reported while paused rejected and never dispatched, end time = last event. Every 20 programs a net-level probe injects messages at absolute timestamps through Runtime<Sim>::add_message_onto / handle_message_on - before the run with start time 0 / 5 s / 10^6 s, and on a runtime paused by an until-step: each is handled at exactly its timestamp, an injection below the current time is rejected. Every 20 programs a small application runs on a timeline beyond 2^64 ns (start time 18 446 744 000 s, events up to 400 s later with relative and absolute follow-ups): now == scheduled, non-decreasing, adds at / after now accepted, end time = last event. Every 500 programs a simulation whose handlers take 2 ms of wall-clock time runs while another thread calls Builder::build with another start time (des serialises simulations: that call has to wait and must not touch the running clock). The same driver also runs against des built without the cqueue feature (BinaryHeap event set; stage heap-backend, both tiers). Non-trivial = program with >= 3 events that ran clean; "
                 "distinct = hash of the program."),
        "assumptions": ["the handlers of the monitor application are the observation boundary; H4 observes every SimTime::set_now",
                        "start times are restricted to those the calendar queue can reach by scanning <= 1e6 buckets from zero (a larger start time "
                        "makes the first fetch scan for hours; that is a performance matter outside the property)"],
        "stages": [
            native("runtime", "desmon", "c02", tiers=QT, timeout={"quick": 900, "thorough": 5400}),
            native("heap-backend", "desmon", "c02", tiers=QT, features="heap", timeout={"quick": 900, "thorough": 5400}, counter_prefix="heap_",
                   args={"quick": ["cases=16000"], "thorough": ["cases=400000"]}),
        ],
        "floor": {
            "quick": {"events_handled": 1000000, "past_adds_rejected_in_handlers": 20000, "programs_with_nonzero_start": 50000,
                      "pre_run_adds_before_start_rejected": 50000, "clock_writes_observed": 1000000, "event_set_walks": 100000,
                      "stepped_runs": 20000, "paused_adds_below_reported_time_rejected": 50000,
                      "programs_starting_beyond_10_7_seconds": 2000, "heap_events_handled": 200000, "net_injection_probes": 4000,
                      "runs_on_a_timeline_beyond_2_64_ns": 4000, "runs_with_a_second_builder_in_another_thread": 150},
            "thorough": {"events_handled": 50000000, "past_adds_rejected_in_handlers": 1000000, "programs_with_nonzero_start": 1000000,
                         "pre_run_adds_before_start_rejected": 1000000, "clock_writes_observed": 50000000, "heap_events_handled": 1000000,
                         "programs_starting_beyond_10_7_seconds": 30000, "net_injection_probes": 80000, "runs_on_a_timeline_beyond_2_64_ns": 80000, "runs_with_a_second_builder_in_another_thread": 3000},
        },
    },
    "C10": {
        "level": "exploration",
        "rule": ("event programs as for C02; for each program the uninterrupted run of the real code is the reference trace, then stepped executions: for "
                 "programs <= 7 events EVERY composition into <= 3 n-event steps and every until-cut below / at / above every timestamp (single, pairs, mixed "
                 "with n-steps), for larger ones random schedules, with and without external add_event while paused (at sim_time, between, at and after the "
                 "next event). Oracle: per-step counts (exactly n or all; exactly those <= t), paused sim_time / remaining / dispatched against an exact "
                 "reference model, concatenated trace == uninterrupted trace == model trace. Every 25 programs the net-level injection probe of C02 (add_message_onto / handle_message_on before the run and on a runtime paused by an until-step). The same driver also runs against des built without the cqueue feature (BinaryHeap event set; stage heap-backend, both tiers; the order among equal timestamps is then taken from the observed run). Non-trivial = a step that dispatched something and left "
                 "something pending; distinct = hash of (program, schedule)."),
        "exhaustive_part": "all n-event compositions (<= 3 cuts) and all until-cuts around every timestamp for programs of <= 7 events",
        "assumptions": ["dispatch_events_until is only called with times >= the paused time"],
        "stages": [
            native("runtime", "desmon", "c10", tiers=QT, timeout={"quick": 900, "thorough": 5400}),
            native("heap-backend", "desmon", "c10", tiers=QT, features="heap", timeout={"quick": 900, "thorough": 5400}, counter_prefix="heap_",
                   args={"quick": ["cases=6000"], "thorough": ["cases=100000"]}),
        ],
        "floor": {
            "quick": {"heap_stepped_executions": 100000, "net_injection_probes": 1000, "stepped_executions": 500000, "cuts_inside_a_tie_group": 100000, "external_adds_while_paused": 50000,
                      "programs_with_exhaustive_step_schedules": 5000},
            "thorough": {"stepped_executions": 10000000, "cuts_inside_a_tie_group": 2000000, "external_adds_while_paused": 1000000,
                         "programs_with_exhaustive_step_schedules": 100000, "heap_stepped_executions": 1000000},
        },
    },
    "C11": {
        "level": "exploration",
        "rule": ("event programs as for C02; the unlimited run of the real code gives the sequence E; limited runs built with Builder::max_itr / max_time / "
                 "limit (nested And/Or trees, several calls combine with or): for programs <= 30 events EVERY count 0..|E|+2 and every time below / at / "
                 "between / above the timestamps, plus random trees of depth <= 3; every single count / time limit is also applied through the stepping interface (start, one dispatch_n_events / dispatch_events_until, finish); a quarter of the limited runs is additionally driven as start, random n-event / until-time steps (a third of the n-steps drains the event set) with events added from outside while paused, dispatch_all, finish - the configured limit must be back in force after every step (the reference is the model driven through the same steps; what the steps themselves handled stays handled). Oracle: independent limit-tree evaluator gives the stop index p; handled "
                 "== E[0..p), event_count == p, end time == time of E[p-1] (start time if p = 0), remaining == multiset of (event, timestamp) scheduled by "
                 "the prefix and not handled. The same driver also runs against des built without the cqueue feature (stage heap-backend, both tiers). Non-trivial = run stopped with events pending after dispatching at least one; distinct = hash of (program, limit)."),
        "exhaustive_part": "every event-count limit and every time limit around every timestamp for programs of <= 30 events",
        "assumptions": [],
        "stages": [
            native("runtime", "desmon", "c11", tiers=QT, timeout={"quick": 900, "thorough": 5400}),
            native("heap-backend", "desmon", "c11", tiers=QT, features="heap", timeout={"quick": 900, "thorough": 5400}, counter_prefix="heap_",
                   args={"quick": ["cases=8000"], "thorough": ["cases=100000"]}),
        ],
        "floor": {
            "quick": {"heap_limited_executions": 100000, "limited_executions": 300000, "runs_stopped_with_events_pending": 200000, "stops_inside_a_tie_group": 20000,
                      "combined_limits": 50000, "programs_with_exhaustive_limits": 5000, "remaining_events_returned": 500000,
                      "limits_kept_across_steps_and_external_adds": 100000, "limited_runs_with_an_add_after_a_step_drained_the_event_set": 20000},
            "thorough": {"limited_executions": 6000000, "runs_stopped_with_events_pending": 4000000, "stops_inside_a_tie_group": 400000,
                         "combined_limits": 1000000, "programs_with_exhaustive_limits": 100000, "heap_limited_executions": 1000000,
                         "limits_kept_across_steps_and_external_adds": 1500000, "limited_runs_with_an_add_after_a_step_drained_the_event_set": 300000},
        },
    },
    "C07": {
        "level": "exploration",
        "rule": ("two-module rig tx.out -> rx.in over one channel: bitrate {0,1,3,8,1e3,8e3,1e6,1e9,1e12,1e13,123456789} x latency {0,3ns,1ms,1s} x jitter {0,1ms,1s} x "
                 "policy {Drop, Queue(None), Queue(0), Queue(L) with L at / one below / one above sums of the message lengths in play}; offers in bursts of 1..50 "
                 "inside one handler with gaps below / at / above the transmission time, several busy periods, body sizes {0..65000}, the connect call issued from either end; every 100 cases a second link created at run time inside a handler from the channel of the first link while that is transmitting (the new direction must be idle and deliver after exactly tx + latency), and a probe with traffic in both directions of one link at once (a message offered to the idle direction while the other transmits and queues starts at once: the directions are independent); two thirds of the cases attach a probe to the sending direction at start-up and half of those replace it from the handler before every second burst and after the first message of every burst, i.e. while the channel transmits and holds queued messages - the probes together must see every transmission exactly once, at the instant it starts, and replacing one must change nothing else; plus an enumerated "
                 "boundary grid (limit = k*len-1, k*len, k*len+1 x burst 1..5). Every offer logs the channel's busy flag, finish time and queue "
                 "(hook: Channel::verif_state) before and after; every arrival is logged by the receiver. Oracle: reference automaton with exact integer "
                 "arithmetic (only size/bitrate combinations whose rounding to ns is unambiguous are generated): busy flag, finish time and queue length at "
                 "every offer, arrival time = start + tx + latency (+[0,jitter]), exactly-once, no phantom, dropped never delivered, offer order preserved "
                 "at zero jitter, nothing queued / busy at the end. An offer made exactly at the end of a transmission is resolved by the sampled flag. "
                 "Non-trivial = case with at least one queued or dropped and one delivered message; distinct = hash of the case."),
        "exhaustive_part": "boundary grid: 4 bitrates x 3 sizes x limits {k*len-1,k*len,k*len+1 | k=0..2} x bursts 1..5",
        "assumptions": ["Message::length() = 64 + body bytes is checked per offer; the reference never calls the channel's own duration functions"],
        "stages": [
            native("rig", "desmon", "c07", tiers=QT, timeout={"quick": 900, "thorough": 5400}),
        ],
        "floor": {
            "quick": {"offers": 1000000, "deliveries_checked": 500000, "drops_predicted": 300000, "messages_queued": 200000, "busy_periods": 300000,
                      "offers_at_the_busy_boundary_resolved_by_flag": 20000, "zero_length_transmissions": 50000, "cases_with_jitter": 20000,
                      "boundary_grid_cases": 400, "transmissions_seen_by_a_probe": 500000, "links_with_traffic_in_both_directions_at_once": 1000,
                      "cases_with_the_probe_replaced_while_the_channel_is_in_use": 15000},
            "thorough": {"offers": 20000000, "deliveries_checked": 10000000, "drops_predicted": 6000000, "messages_queued": 4000000, "busy_periods": 6000000,
                         "zero_length_transmissions": 1000000, "cases_with_jitter": 400000, "boundary_grid_cases": 400,
                         "transmissions_seen_by_a_probe": 8000000, "links_with_traffic_in_both_directions_at_once": 20000, "cases_with_the_probe_replaced_while_the_channel_is_in_use": 300000},
        },
    },
    "C08": {
        "level": "exploration",
        "rule": ("declared gate chains [g0..gk], k = 1..20 hops (a twelfth: 17..50 hops, mostly without channels, so that more than 16 hops are traversed within one event), gates on one module / a line of modules / random modules, named gates or clusters (a third of the cases creates the cluster members one by one with create_raw_gate: in descending order, starting in the middle, or with a foreign gate between the first and second member), channels "
                 "(bitrate, latency, a quarter of them with a small jitter: the arrival must then lie in [sum, sum + jitters]) on random hops; built by connect calls in EVERY permutation for k <= 5 (every orientation vector for k <= 4) "
                 "and random permutations / orientations above, with repeated calls mixed in; every 200 cases a hop is connected while the simulation runs, from the channel object of a hop that is transmitting, and three well separated messages over it must each arrive exactly once after transmission time + latency, and every 200 cases a hop carries messages in both directions at overlapping times (the directions do not interfere); 1..4 uncontended messages per chain in both directions with send "
                 "and send_in (on chains without jitter a third of them with a second message of the same size sent right behind in the same handler: it is queued behind the first on every hop with a transmission time and must arrive exactly once, at the far end, at the time a tandem of FIFO queues gives), a fifth of them sent by a third module through a reference to the end gate (which, in a third of the cases, shuts itself down in the event of its last send). Oracle = the declared chain: kind of every gate, path_iter from both ends (exact mirror images), path_end, channel(), symmetry "
                 "after each connect, idempotence of repeated connects, rejection of a third peer; each message handled exactly once, by the owner of the far "
                 "end, at send time + sum of per-hop (latency + size*8/bitrate), with sender id, receiver id and last gate in the header. Non-trivial = chain "
                 "with >= 2 hops that checked clean; distinct = hash of the case."),
        "exhaustive_part": "all permutations of the connect calls for k <= 5 hops (all 2^k orientations for k <= 4, 6 orientation vectors for k = 5)",
        "assumptions": ["contention on channels is C07's business: messages of one chain are spaced so that every channel is idle when offered"],
        "stages": [
            native("chains", "desmon", "c08", tiers=QT, timeout={"quick": 900, "thorough": 5400}),
        ],
        "floor": {
            "quick": {"deliveries_checked": 100000, "chain_walks_checked": 100000, "repeated_connect_calls": 20000, "third_peer_rejections": 50000,
                      "enumerated_connect_orders": 1000, "chains_with_channels": 30000, "chains_with_reverse_sends": 30000, "max_hops": 45,
                      "chains_with_more_than_16_consecutive_hops_without_channel": 1000,
                      "sends_by_a_third_module_through_a_gate_reference": 10000,
                      "chains_over_clusters_created_member_by_member_out_of_order": 3000, "hops_connected_at_run_time_from_a_busy_channel": 150, "messages_sent_right_behind_another_and_queued_on_the_way": 8000, "hops_with_traffic_in_both_directions_at_once": 150},
            "thorough": {"deliveries_checked": 2000000, "chain_walks_checked": 2000000, "repeated_connect_calls": 400000, "third_peer_rejections": 1000000,
                         "enumerated_connect_orders": 1000, "max_hops": 20,
                         "chains_over_clusters_created_member_by_member_out_of_order": 60000, "hops_connected_at_run_time_from_a_busy_channel": 3000, "messages_sent_right_behind_another_and_queued_on_the_way": 160000, "hops_with_traffic_in_both_directions_at_once": 3000},
        },
    },
    "C19": {
        "level": "exploration",
        "rule": ("declared module graphs: 1..12 modules (some nested), trees / stars / rings / cliques / random multigraphs with self loops through two gates of "
                 "one module, multi edges, in two fifths of the graphs a random subset of the modules owns its chain endpoints as the members of one gate cluster port[0..k) (parallel links then start at gates of one name), disconnected parts, unconnected gates, chains through 0..15 transit gates (16 hops = the documented limit); for each: the "
                 "global view, the view spanned from EVERY module, three views over subsets of the modules (Topology::from_modules: exactly the listed modules and the edges whose two ends are both listed), a node-filtered and an edge-filtered view, dijkstra from EVERY source. Oracle = reference digraph "
                 "from the declaration (one edge per chain endpoint, labelled with the two endpoint gates) + BFS: node multiset, edge multiset (src, dst, start "
                 "gate, end gate), gate owners match edge ends, edges_for (by path and by node handle: count and start node), connected / bidirectional by definition, filter results, dijkstra keys = reachable "
                 "set and 1 + dist(first hop, v) == dist(src, v). Non-trivial = graph with >= 3 modules and >= 2 chains; distinct = hash of the case."),
        "assumptions": [],
        "stages": [
            native("views", "desmon", "c19", tiers=QT, timeout={"quick": 900, "thorough": 5400}),
        ],
        "floor": {
            "quick": {"spanned_views_checked": 200000, "dijkstra_targets_checked": 1000000, "filtered_views_checked": 50000, "edges_compared": 2000000,
                      "graphs_with_self_loops": 5000, "graphs_with_16_hop_chains": 5000, "subset_views_checked": 50000,
                      "graphs_with_parallel_links_on_a_gate_cluster": 2000},
            "thorough": {"spanned_views_checked": 4000000, "dijkstra_targets_checked": 20000000, "filtered_views_checked": 1000000,
                         "graphs_with_self_loops": 100000, "graphs_with_16_hop_chains": 100000, "subset_views_checked": 1000000,
                         "graphs_with_parallel_links_on_a_gate_cluster": 40000},
        },
    },
    "C05": {
        "level": "exploration",
        "rule": ("1..4 async modules x 1..8 tasks x up to 30 steps of generated timer scripts: sleep, sleep_until (also in the past), timeout over "
                 "{sleep, yield_now, pending, far-future sleep}, biased select! of two sleeps (one possibly far future), poll-once-then-drop, pinned sleep "
                 "with reset (before its deadline, and after the deadline was reached while the task waited for another timer), interval sections with Burst / Delay / Skip and late ticks (a third of them created with interval_at with the first tick due 50 / 10 ms ago, now, or in 10 / 100 ms; Interval::reset between ticks and, for a third of the interval_at sections, before the first tick - which may be more than one period away), two sleeps of one task with the same deadline of which the first registered is dropped and the second awaited, disarmed timers (sleep(Duration::MAX), polled once) armed by reset to one of four absolute instants - so that several tasks arm theirs to the same deadline - of which half are given up half way, recv from a channel fed at generated instants; a third of the scripts goes through the other entry points (sleep_until(now + d), timeout_at, interval_at(now, p)) and the accessors deadline() / is_elapsed() / period() / missed_tick_behavior() must agree with what was asked for; half of the cases add up to 6 unrelated self messages per module, three quarters of them arriving exactly at a timer deadline of that module and half of them swallowed by a processing element (the handler never runs in that event) - they must not move any completion; durations from a small "
                 "set (whole milliseconds up to 10 s, plus 0.3 ms and 0.7 ms: deadlines of different tasks may differ by less than a millisecond) so that deadlines collide across tasks and cancelled timers leave empty slots in front of live ones. Every step logs (module, task, "
                 "step, SimTime::now(), outcome); oracle = reference interpreter in virtual time: completion time equal (never earlier, never later), outcome "
                 "equal, every step completes, run() Ok, run does not end before the last deadline; hook H5: after every module event a waiting timer has a "
                 "wake-up scheduled at or before its deadline. Non-trivial = case in which a module event ended with an empty slot in front of a live timer; "
                 "distinct = hash of the case."),
        "assumptions": ["interval sections only contain waits that are multiples of 10 ms with periods >= 20 ms, so a tick is on time or late by >= 10 ms "
                        "(outside the implementation's 5 ms grace window, on which the reference therefore does not depend)",
                        "timeout(0, f) with f completing on its second poll inside the same instant is not generated (the two clauses of the statement "
                        "disagree on it; a false alarm of an earlier version of this monitor)"],
        "stages": [
            native("scripts", "desmon", "c05", tiers=QT, timeout={"quick": 900, "thorough": 5400}),
            {"name": "miri", "crate": "desmon", "cmd": "c05", "mode": "miri", "tiers": T, "shards": {"thorough": 16},
             "args": {"thorough": ["--budget", "6", "steps=8"]}, "timeout": {"thorough": 5400}, "counter_prefix": "miri_"},
        ],
        "floor": {
            "quick": {"timer_steps_checked": 2000000, "module_events_with_empty_slots_in_front_of_live_timers": 100000, "steps_timeout": 100000,
                      "steps_select": 100000, "steps_reset": 50000, "steps_poll_then_drop": 30000, "steps_interval_tick": 300000, "steps_recv": 100000,
                      "steps_interval_at": 40000, "steps_interval_reset": 60000, "steps_twin_timers_first_dropped": 20000, "steps_far_future_sleep_armed_by_reset": 15000, "steps_through_sleep_until_timeout_at_interval_at": 500000,
                      "unrelated_messages_arriving_at_a_timer_deadline": 30000, "unrelated_messages_swallowed_by_a_processing_element": 15000},
            "thorough": {"timer_steps_checked": 40000000, "module_events_with_empty_slots_in_front_of_live_timers": 2000000, "miri_timer_steps_checked": 200,
                         "steps_interval_at": 800000, "steps_interval_reset": 1200000, "steps_twin_timers_first_dropped": 400000, "steps_far_future_sleep_armed_by_reset": 300000, "steps_through_sleep_until_timeout_at_interval_at": 10000000,
                         "unrelated_messages_arriving_at_a_timer_deadline": 600000, "unrelated_messages_swallowed_by_a_processing_element": 300000},
        },
    },
    "C06": {
        "level": "exploration",
        "rule": ("1..3 async modules with 1..4 triggers each (inside at_sim_start, or a message at a generated instant; several triggers may share an instant): "
                 "spawn bursts of N tasks that yield k times and optionally sleep to a common deadline (timer wake-up of N tasks at once), notify_waiters "
                 "broadcasts to N waiting tasks, wake chains of depth <= 2000 through oneshot / mpsc / semaphore / join handles (a third of them alternating between tokio::spawn and spawn_local tasks), one task draining up to 10000 "
                 "channel items in one instant (tokio coop budget), N tasks woken by a processing element that consumes the trigger message (the handler never runs "
                 "in that event), a handler that fires its trigger and requests the shutdown of its module in the same event, 1..8 tasks awaiting timeout(1 ms / 1 s / 7 s, oneshot) that a sibling task answers in the same event (the timeout's timer is armed and disarmed within one instant) and then sleeping 1 ms..10 s, 1..6 tasks holding an idle timer (pinned sleep) that is re-armed 1..3 times within one event to the deadline it is already registered for, 1..6 tasks holding two sleeps with the same deadline of which the first registered is dropped and the other awaited, 1..5 tasks awaiting timeout(3 s / 10 s, oneshot) that a later message of the module answers after 1 s / 2 s (the timer is cancelled in a later event, before its deadline) and then sleeping past the cancelled deadline, 2..9 tasks whose sleeps end 0.1 ms apart (registered in ascending or descending order), 2..7 tasks arming a disarmed timer (sleep(Duration::MAX)) to a common deadline of which every second gives up half way, and (one trigger in 300) a single task that stays runnable for 300000..600000 polls within one instant (the executor then needs a noticeable amount of wall-clock time; only virtual time may decide when the task continues); N in {1,2,60,61,62,122,123,200,1000,5000}; each with tokio::spawn and with spawn_local "
                 "(every tenth case: spawn_local work needing more than one LocalSet turn of 61 polls). Every task logs SimTime::now() after each await; the "
                 "instant its condition became true is known by construction; a later sentinel event of the module makes stranded work visible. Oracle: "
                 "logged now == enabling instant for every wake-up, every task finished at the end. Non-trivial = case with an instant needing > 61 polls; "
                 "distinct = hash of the case."),
        "assumptions": [],
        "stages": [
            native("storms", "desmon", "c06", tiers=QT, timeout={"quick": 900, "thorough": 5400}),
        ],
        "floor": {
            "quick": {"wakeups_observed": 5000000, "instants_needing_more_than_61_polls": 3000, "instants_needing_more_than_122_polls": 2000,
                      "scenarios_with_spawn_local": 1500, "spawn_local_over_budget_cases": 300, "scenarios_wake_chain": 1500,
                      "scenarios_notify_broadcast": 500, "scenarios_channel_drain": 500, "scenarios_spawn_burst": 1500,
                      "scenarios_message_consumed_by_processing_element": 500,
                      "scenarios_timeout_answered_within_the_instant_then_sleep": 800,
                      "scenarios_sleep_rearmed_to_its_own_deadline": 700, "scenarios_one_task_runnable_for_over_300000_polls": 10,
                      "scenarios_twin_timers_first_dropped": 600, "scenarios_timeout_answered_in_a_later_event_then_sleep": 500,
                      "scenarios_deadlines_less_than_a_millisecond_apart": 500, "scenarios_far_future_sleeps_armed_to_a_common_deadline": 500},
            "thorough": {"wakeups_observed": 100000000, "instants_needing_more_than_61_polls": 60000, "instants_needing_more_than_122_polls": 40000,
                         "scenarios_with_spawn_local": 30000, "spawn_local_over_budget_cases": 6000,
                         "scenarios_timeout_answered_within_the_instant_then_sleep": 15000,
                         "scenarios_sleep_rearmed_to_its_own_deadline": 12000, "scenarios_one_task_runnable_for_over_300000_polls": 200,
                         "scenarios_twin_timers_first_dropped": 10000, "scenarios_timeout_answered_in_a_later_event_then_sleep": 8000,
                         "scenarios_deadlines_less_than_a_millisecond_apart": 8000, "scenarios_far_future_sleeps_armed_to_a_common_deadline": 8000},
        },
    },
    "C09": {
        "level": "fault_enumeration",
        "rule": ("root p0 with 1..3 victim children and a receiver p1; per victim 0..3 shutdown / restart cycles plus requests that arrive while it is down, "
                 "requested from a message handler or from a task, restart never / in d / at t (a quarter of the restart requests is preceded, in the same event, by a plain shutdown(): a restart time was given, so the module restarts), two victims sharing the same instants; every incarnation sends a message from its first start-up stage and one in the very event in which it requests its shutdown - before the request or, in a third of the shutdowns, after it (both must be delivered: the module is up until the end of that event); a quarter of the victims is an AsyncFn block (one task receiving the module's messages) instead of a hand-written module, ticker task, "
                 "self-message beat chain, data messages over a delayed channel (also in flight at the request / restart instant), messages passing through a "
                 "transit gate of the victim on their way to p1 (sent while up, at the gate while down), the parent probing child() periodically; a third of the hand-written victims installs a processing element that logs every event its stack sees, a quarter spawns a task in Module::reset that sleeps 1 / 16 / 106 ms and then logs (neither may show strictly inside a down interval; the at_sim_end call, which des delivers to every module, is exempt); every fifth "
                 "case places arrivals exactly on request / restart instants. All callbacks log into one global sequence. Oracle = evaluation of the statement: "
                 "down intervals (request, restart); mandatory entries (start stages once, in order, at exactly the restart time; exactly one reset per "
                 "effective shutdown; ticks / beats / data of the live incarnation at their exact times; transit deliveries iff the victim is up when the "
                 "message is at its gate; probe results), nothing else may be logged, nothing of the victim between its reset and its restart, entries on a "
                 "boundary instant are left open. Non-trivial = case with at least one effective shutdown; distinct = hash of the case."),
        "assumptions": ["events that fall exactly on a shutdown-request or restart instant of the same victim are not judged (the statement leaves their order open)"],
        "stages": [
            native("scenarios", "desmon", "c09", tiers=QT, timeout={"quick": 900, "thorough": 5400}),
        ],
        "floor": {
            "quick": {"shutdowns_effective": 20000, "restarts": 15000, "data_messages_due_while_down": 50000, "transit_messages_due_while_down": 50000,
                      "transit_messages_in_flight_at_shutdown": 5000, "shutdown_requests_from_tasks": 10000, "shutdown_requests_from_handlers": 10000,
                      "cases_with_deliberate_coincidences": 2000, "log_entries_checked": 5000000,
                      "events_seen_by_victim_processing_stacks": 500000, "victims_spawning_a_sleeping_task_in_reset": 2000,
                      "restart_requests_issued_right_after_a_plain_shutdown_in_the_same_event": 4000,
                      "shutdown_events_sending_a_message_after_the_request": 8000},
            "thorough": {"shutdowns_effective": 400000, "restarts": 300000, "data_messages_due_while_down": 1000000,
                         "transit_messages_due_while_down": 1000000, "transit_messages_in_flight_at_shutdown": 100000, "log_entries_checked": 100000000,
                         "events_seen_by_victim_processing_stacks": 15000000, "victims_spawning_a_sleeping_task_in_reset": 40000,
                         "restart_requests_issued_right_after_a_plain_shutdown_in_the_same_event": 80000,
                         "shutdown_events_sending_a_message_after_the_request": 150000},
        },
    },
    "C12": {
        "level": "exploration",
        "rule": ("declared module trees (2..25 nodes, depth <= 4, fan-out <= 4, sibling names from {a, ab, a1, b, a[0], abc, node, node1, node10, x_y, non-ASCII}, "
                 "0..4 start stages per module, nodes created directly or through a ModuleBlock with a scoped builder) inserted in EVERY valid order (parents first) "
                 "for trees of <= 6 nodes and in random valid orders above; each module schedules a self message; a twelfth of the modules reports an error from at_sim_end (run() must return an error and every module is still torn down exactly once), a twelfth shuts itself down in its first start-up stage (its remaining declared stages are still delivered), one module in 14 panics while it handles its self message (not caught: run() returns an error; every module - also that one - is still torn down exactly once after the last event); a fifth of the runs is stopped by an event-count limit with self messages still pending and torn down all the same. All at_sim_start / handle_message / at_sim_end "
                 "calls log into one sequence. Oracle from the declaration alone: start sequence == stage-major x depth-first pre-order with siblings in creation "
                 "order, exactly once per declared stage; at_sim_end exactly once per module and after the last event callback; current().path / name / parent / "
                 "child agree with the tree inside every callback; Sim::nodes() == declared set; duplicate path and missing parent rejected by a panic (fresh "
                 "builder per probe); ObjectPath (as_str, len, name, parent, as_parent_str, nonzero_parent, appended) against string splitting. Non-trivial = "
                 "tree with >= 3 nodes and at least one child; distinct = hash of (tree, insertion order)."),
        "exhaustive_part": "all valid insertion orders for every generated tree with <= 6 nodes",
        "assumptions": ["the relative order of at_sim_end calls among modules is not constrained by the statement and is not checked"],
        "stages": [
            native("trees", "desmon", "c12", tiers=QT, timeout={"quick": 900, "thorough": 5400}),
        ],
        "floor": {
            "quick": {"insertion_orders_executed": 100000, "start_calls_checked": 1000000, "trees_with_all_insertion_orders": 2000,
                      "trees_with_prefix_sharing_siblings": 50000, "builder_rejection_probes": 10000, "insertion_orders_not_in_declaration_order": 90000,
                      "trees_with_a_module_that_panics_during_the_run": 20000, "runs_stopped_by_an_event_limit_with_messages_pending": 15000},
            "thorough": {"insertion_orders_executed": 2000000, "start_calls_checked": 20000000, "trees_with_all_insertion_orders": 40000,
                         "builder_rejection_probes": 200000, "trees_with_a_module_that_panics_during_the_run": 400000, "runs_stopped_by_an_event_limit_with_messages_pending": 300000},
        },
    },
    "C14": {
        "level": "exploration",
        "rule": ("1..2 device-under-test modules with stacks of 0..4 elements from {pass, tag (sets a bit in the message), consume-if(id % m == r), chatty (sends a message "
                 "from every hook)}, supplied globally through set_stack, per module through Module::stack (element by element or as one appended stack), or both; a sixth of the modules ignores the base stack it is handed and returns its own elements only (exactly those are then installed); every 1000 cases a simulation with a global element is built from a network description through a registry (one type by symbol, the others by its fallback): every event of every such module is bracketed by the global element; 3..42 self messages at distinct instants, a task "
                 "with timer wake-ups, 1..2 start stages, optionally shutdown-and-restart (restart stages), tear-down (a sixth of the modules reports an error from at_sim_end, which run() must return); handlers optionally send two messages; a sixth of the modules (catching stereotype) panics in the handler of one message: that event is closed like any other and the module is inert afterwards. All hooks, "
                 "handlers, task wake-ups and the receptions of the messages sent from hooks log into one sequence. Oracle = bracket grammar per module event: "
                 "event_start exactly once per element in stack order; incoming only after that element's start, in order, element i+1 sees exactly the tags "
                 "element i returned, stops at the first consumer; handler iff nobody consumed, with the final tags; event_end once per element in reverse order "
                 "after the body; no hook of another event inside a bracket; start / restart / wake-up / tear-down brackets without incoming; each scheduled message "
                 "handled or consumed exactly once; messages sent during events arrive in program order. Non-trivial = case with a stack >= 2 in which an element "
                 "consumed a message; distinct = hash of the case."),
        "assumptions": ["events whose handler panics are C13's domain and are not generated here",
                        "a task whose timer is due may run inside any bracket of its module (not only inside a wake-up bracket)"],
        "stages": [
            native("brackets", "desmon", "c14", tiers=QT, timeout={"quick": 900, "thorough": 5400}),
        ],
        "floor": {
            "quick": {"brackets_parsed": 800000, "messages_consumed_by_an_element": 100000, "timer_wakeup_brackets": 20000, "restart_stage_brackets": 5000,
                      "teardown_brackets": 20000, "messages_sent_from_hooks_received": 500000, "cases_with_global_and_module_stack": 5000,
                      "cases_with_stack_of_4": 2000, "cases_with_stack_of_0": 300, "teardowns_reporting_an_error": 2000,
                      "cases_appending_a_longer_module_stack_at_once": 500, "cases_with_a_module_that_replaces_the_global_stack": 2000, "simulations_built_from_a_description_with_a_global_stack": 20},
            "thorough": {"brackets_parsed": 16000000, "messages_consumed_by_an_element": 2000000, "timer_wakeup_brackets": 400000,
                         "restart_stage_brackets": 100000, "cases_with_global_and_module_stack": 100000,
                         "cases_with_a_module_that_replaces_the_global_stack": 40000, "simulations_built_from_a_description_with_a_global_stack": 300},
        },
    },
    "C13": {
        "level": "fault_enumeration",
        "crash_is_violation": True,
        "rule": ("generated deterministic models (3..5 modules, ring or star, 1..2 start stages, timers that inject tokens which are forwarded with a hop budget, "
                 "optional tasks with timer steps, a quarter of the modules shuts down and restarts after its k-th message); for every model a fault-free baseline run gives the occurrence counts, then EVERY single placement "
                 "(module x {at_sim_start(stage), start stage of the restart, k-th handle_message before / after its sends, at_sim_end} x {non-catching, catching stereotype} (a share of the handler faults is raised inside the simulator: the documented panic of sending on a transit gate; every second handler placement also in the form 'spawn a task that would send a token to a neighbour, then fault' - the task must never be polled), plus every step "
                 "of a joined task, registered with join and with try_join - half of the modules register a never-finishing service task with try_join first; only the task of a module's first incarnation is faulty, so that after a restart the old task's panic must still be reported while the module and its new task run on) and pairs of placements in two modules (all pairs for small models, 60 sampled otherwise) are executed twice with the real "
                 "also up to 8 pairs per model inside ONE module: its must-join task panics at a step and, later in the fault-free order, one of its callbacks panics under the catching stereotype (the module is inactive at the end of the run, the task's panic must still be reported). "
                 "code: A panics at the point, B falls silent there. Oracle: A returns (no unwind, no abort: a dead worker counts as violation), the error lists "
                 "exactly the modules whose reached fault is not caught (PanicError / JoinError paths), every non-faulty module's log in A equals its log in B, the "
                 "faulty module handles nothing after the fault and is reported inactive at tear-down, the statics (module context, event buffer, globals) are "
                 "clean after the drop, the gates of every module stay usable at tear-down (kind / next_gate), and a fixed follow-up simulation in the same process reproduces its reference trace. Non-trivial = every executed "
                 "placement that checked clean; distinct = hash of (model, faults)."),
        "exhaustive_part": "all single fault placements of every generated model; all pairs for models with <= 60 pairs",
        "assumptions": ["start stages after a faulty stage and at_sim_end are still invoked on a deactivated module by des; what the dead module does there is not judged",
                        "a joined-task panic (join or try_join handle) is only combined with the non-catching stereotype (the statement's 'caught' clause is about callbacks)",
                        "faulty modules forward with send after a self-scheduled delay, not with send_in (whether a delayed send of a module that died "
                        "meanwhile still leaves its gate is not decided by the statement)"],
        "stages": [
            native("placements", "desmon", "c13", tiers=QT, timeout={"quick": 900, "thorough": 5400}),
        ],
        "floor": {
            "quick": {"fault_placements_executed": 250000, "double_fault_placements": 40000, "faults_at_sim_start": 15000, "faults_at_sim_end": 10000,
                      "faults_in_handle_message_after_sending": 120000, "faults_in_joined_task": 8000, "faults_with_catching_stereotype": 120000,
                      "followup_simulations": 250000, "models": 900, "faults_in_try_joined_task_registered_after_a_running_one": 2000,
                      "faults_right_after_spawning_a_task_that_would_send": 30000,
                      "task_fault_then_caught_callback_fault_in_one_module": 2500},
            "thorough": {"fault_placements_executed": 4000000, "double_fault_placements": 600000, "faults_in_joined_task": 120000, "models": 15000,
                         "faults_in_try_joined_task_registered_after_a_running_one": 30000,
                      "faults_right_after_spawning_a_task_that_would_send": 300000},
        },
    },
    "C20": {
        "level": "exploration",
        "crash_is_violation": True,
        "rule": ("(every second self message of a module carries a zero-sized payload type with a destructor, counted per tag) "
                 "generated simulations: 1..6 modules (top-level modules form a gate ring, possibly a self loop; others are children), ring channels none / latency "
                 "only / slow (messages pile up in the channel queue) / fast, per module: self messages, a start burst on the ring, tasks (sleeper loop, receiver "
                 "on a never-fed channel, pending, finite, spawn_local sleeper), forwarding with a hop budget, messages held in module state, shutdown / "
                 "shutdown-and-restart / panic at the k-th message, messages sent from at_sim_end, processing element, channel probe, in a fifth of the models a closed ring of 3..6 transit gates (never used for traffic) with a channel that carries a probe, in a quarter 1..3 extra nodes built from AsyncFn::new / failable / io (task blocked on its receiver), HandlerFn and ModuleFn; identity tokens in all of "
                 "these. Stop points: builder dropped, runtime dropped before run, stepped n events and abandoned, stepped and finished, event limit (EVERY "
                 "prefix 0..24 for a share of the small models), time limit, completion, error exit; every 50 models a chain src -> relay ==slow queueing channel==> relay -> dst whose relays try to send onto their transit gates at start-up (rejected, run() returns an error) and which is stopped by a time limit with messages on the wire and in the channel queue. Oracle: after dropping whatever was returned every token "
                 "was dropped exactly once (none alive, none twice), the statics are clean, and a fixed follow-up simulation reproduces the trace it has in a "
                 "fresh process (messages handled and the wake-ups of a task that sleeps across message arrivals) and is itself leak free. Non-trivial = case with >= 5 tokens that checked clean; distinct = hash of the case."),
        "exhaustive_part": "every event-count limit 0..24 plus completion for one in eight small models",
        "assumptions": ["tokens observe user-visible values; internal allocations without user values (timer slot / queue cycle) are out of the statement",
                        "Miri runs with leak checking off (verdict about UB only) and without an aliasing model"],
        "stages": [
            native("drops", "desmon", "c20", tiers=QT, timeout={"quick": 900, "thorough": 5400}),
            {"name": "asan", "crate": "desmon", "cmd": "c20", "mode": "asan", "tiers": T, "args": {"thorough": ["--budget", "1500"]},
             "timeout": {"thorough": 3600}, "counter_prefix": "asan_"},
            {"name": "miri", "crate": "desmon", "cmd": "c20", "mode": "miri", "tiers": T, "shards": {"thorough": 16},
             "args": {"thorough": ["--budget", "8", "small=1"]}, "timeout": {"thorough": 5400}, "counter_prefix": "miri_"},
        ],
        "floor": {
            "quick": {"tokens_created": 500000, "stops_event_limit": 20000, "stops_time_limit": 1000, "stops_completed": 2000, "stops_error_exit": 2000,
                      "stops_builder_dropped": 500, "stops_runtime_dropped_before_run": 500, "stops_stepped_and_abandoned": 500, "models_with_closed_gate_ring": 5000,
                      "remaining_events_returned": 100000, "models_with_channel_backlog": 5000, "models_with_shutdown": 8000,
                      "models_sending_at_teardown": 8000, "models_with_every_limit_prefix": 800,
                      "runs_ended_with_errors_by_rejected_sends_on_transit_gates": 500,
                      "self_messages_with_zero_sized_payload_planned": 100000},
            "thorough": {"runs_ended_with_errors_by_rejected_sends_on_transit_gates": 10000, "tokens_created": 10000000, "stops_event_limit": 400000, "remaining_events_returned": 2000000, "models_with_channel_backlog": 100000,
                         "asan_tokens_created": 100000, "miri_tokens_created": 100},
        },
    },
    "C04": {
        "level": "exploration",
        "rule": ("generated models: 2..8 modules in a double ring (two out gates per module) over channels with jitter {0, 1 ms, 20 ms}; handlers draw "
                 "des::runtime::random, choose the out gate and an extra send_in delay from it; start delays drawn with des::runtime::sample; tasks with "
                 "unbiased tokio::select! over three ready futures, select over interval.tick vs a long sleep, random sleeps; a third of the modules requests "
                 "shutdown-and-restart (the restart rebuilds and reseeds the module's tokio runtime), a third emits a message from at_sim_end (never dispatched; "
                 "it must not reach a later simulation), a third runs 2..8 tasks that sleep to common deadlines and draw a random value when they wake; in half of the models two fifths of the message bodies are std HashMap<String,u32> / HashSet<String> tables of 17..80 entries with keys of differing length (per-instance random iteration order; the body size enters the message length and the transmission time over the 10 Mbit/s links, the length is part of the trace); one model in 150 runs a task that yields 300000..500000 times within the first instant, its progress is part of the trace at every later event of its module (how far it got may depend on virtual time only, not on how long the executor needed); half of the models chain further builder options behind Builder::seeded (cqueue_options with the default or other values, start_time + max_time), which must not touch the seeded generator; the driver draws through Runtime::random / rng_sample and reads the clock between build and run. For each (model, seed): executed twice back to back, once "
                 "more after an unrelated simulation of another shape and seed, and (every fourth model) in a separate child process started with a random junk "
                 "allocation. The trace = every delivery (time, module path, kind, id, content, source, value drawn), timer completion, task wake-up, select "
                 "branch, plus final time / event count / remaining / result; all executions must be byte-identical. Non-trivial = model whose trace "
                 "changes when only the seed changes; distinct = model seed."),
        "assumptions": ["module ids and addresses are deliberately not part of the trace (ids come from a process-global counter)"],
        "stages": [
            native("repro", "desmon", "c04", tiers=QT, timeout={"quick": 900, "thorough": 5400}),
        ],
        "floor": {
            "quick": {"executions_compared": 10000, "separate_process_executions_compared": 800, "select_choices_observed": 80000,
                      "random_draws_observed": 300000, "restarts_observed": 4000, "runs_with_channel_jitter": 2000,
                      "models_whose_history_changes_with_the_seed": 1400, "hashed_collection_bodies_delivered": 40000,
                      "models_with_a_task_of_over_300000_polls_in_one_instant": 15, "models_with_builder_options_chained_after_seeded": 1000},
            "thorough": {"executions_compared": 200000, "separate_process_executions_compared": 16000, "select_choices_observed": 1600000,
                         "restarts_observed": 80000, "models_whose_history_changes_with_the_seed": 28000,
                         "hashed_collection_bodies_delivered": 800000, "models_with_a_task_of_over_300000_polls_in_one_instant": 300,
                         "models_with_builder_options_chained_after_seeded": 20000},
        },
    },
    "C16": {
        "level": "exploration",
        "rule": ("random operation sequences (3..62 operations) over a pool of messages whose bodies are drawn from 46 types: u8 u32 i32 f32 [u8;4] u64 u128 bool char "
                 "String Vec<u8> Option Result Box VecDeque BTreeMap () two layout twins, derived named / tuple / unit structs, a derived enum with unit / tuple / "
                 "named / nested variants, generic derived types, two tracked clonable types, a tracked non-clonable type, a zero-sized type with a counted destructor, a non-debuggable type, and - so that every MessageBody impl of des is measured with elements of differing length - [String;3], [Option<u32>;4], LinkedList<String>, HashMap<u8,String> (up to 39 entries), HashSet<String>, BTreeSet<String>, a derived wrapper of BinaryHeap<u16>, (IpAddr, SocketAddr, Duration, SimTime) with v4 and v6 addresses, Vec<String>, &'static str, &'static [u16], the 1-tuple, an 8-tuple, a tuple of the remaining integer / float primitives, and a derived struct and a derived enum whose named fields start with an underscore (reserved / padding fields count like any other); every 500 sequences a probe with two distinct types that share one type name (same-named items in two block scopes). Operations: "
                 "create (set_content* / set_body / with_body / Body::new_with_len with a length declared by the caller / Message::from_parts), replace content (same or other type), try_clone, probe with a foreign type (can_cast, try_content, "
                 "try_content_mut; layout twins preferred), failing try_cast (message must come back intact), try_cast to the own type, try_content_mut, format, "
                 "drop. Shadow model (type, value, length, id) checked after every operation; tracked values dropped exactly once at the end; length() == 64 + a "
                 "hand-written reference size; every 2000 sequences one message of every type is sent over an 8000 bit/s channel and must arrive after exactly "
                 "length() ms. Non-trivial = sequence of >= 5 operations that checked clean; distinct = sequence seed."),
        "assumptions": ["the length of a body is its byte_len at creation; sequences do not change a value through try_content_mut"],
        "stages": [
            native("bodies", "desmon", "c16", tiers=QT, timeout={"quick": 900, "thorough": 5400}),
            {"name": "miri", "crate": "desmon", "cmd": "c16", "mode": "miri", "tiers": T, "shards": {"thorough": 16},
             "args": {"thorough": ["--budget", "150", "len=20", "nochannel=1"]}, "timeout": {"thorough": 5400}, "counter_prefix": "miri_"},
            {"name": "asan", "crate": "desmon", "cmd": "c16", "mode": "asan", "tiers": T, "args": {"thorough": ["--budget", "100000"]},
             "timeout": {"thorough": 3600}, "counter_prefix": "asan_"},
        ],
        "floor": {
            "quick": {"operations": 4000000, "probes_with_foreign_type": 500000, "probes_between_layout_twins": 80000, "failed_casts_message_returned_intact": 250000,
                      "casts_to_own_type": 250000, "clones_checked": 500000, "try_clone_of_non_clonable": 10000, "content_replacements": 250000,
                      "channel_transmissions_timed": 1000, "body_types": 46},
            "thorough": {"operations": 80000000, "probes_between_layout_twins": 1600000, "miri_operations": 20000, "asan_operations": 2000000},
        },
    },
    "C17": {
        "level": "exploration",
        "rule": ("flat dotted-key configurations of 1..8 entries over the segment alphabet {a, al, ali, alice, alicent, b, a1, non-ASCII names, x_y} with '<any>' at "
                 "any depth (also consecutive), entries that address a tested path / a truncated or extended path / a sibling whose name is a prefix, property "
                 "names of 1..2 segments, unique integer values; 1..4 module paths of depth 1..4. Observed through Cfg::capture_for_into and through a real "
                 "simulation builder with include_cfg before and after the nodes (and their parents) are created, before creation with nodes that read their own properties while they are constructed, and with a builder option (with_stack) applied between the include and the creation; the same through the builder-chain form with_cfg and through include_cfg_file (temporary file), each before and after the nodes exist: props_keys and prop_raw values. Oracle = "
                 "independent matcher (split at '.', '<any>' matches exactly one segment, the rest is the property name, no '<any>' in the name): key sets equal, "
                 "each value is the value of a matching entry, no panic. Typed reads: random sequences of prop::<u64 / String / bool / Vec<u32> / f64> on four "
                 "keys: a successful read pins the type, other types must fail, the pinned / natural type stays readable; in half of the sequences a second configuration is included between the reads (specific or wildcard keys) that carries a value of another type for the properties already typed: type and value must survive. Structured-value probe (every 20th case): 1..4 entries with distinct one-segment property names that are no module names, one of them with a mapping value {lo: v, hi: 9}, keys specific or with wildcards; the addressed module (depth 1..3) must show every entry that addresses it under its property name with its own value (mapping read back as a mapping with lo = v, hi = 9), through Cfg::capture_for_into and include_cfg before / after node creation; additional keys are not judged in this probe. Non-trivial = case with a wildcard "
                 "entry and a module that receives something; distinct = hash of the case."),
        "assumptions": ["keys are quoted YAML strings, values integers (one mapping value in the structured-value probe, where only presence and value of the addressed properties are judged)"],
        "stages": [
            native("cfg", "desmon", "c17", tiers=QT, timeout={"quick": 900, "thorough": 5400}),
        ],
        "floor": {
            "quick": {"module_property_sets_compared": 1000000, "wildcard_entries": 150000, "paths_with_matching_entries": 100000,
                      "cases_with_non_ascii_names": 50000, "cases_with_prefix_sharing_names": 40000, "typed_reads": 40000,
                      "typed_sequences_with_a_late_include": 1500, "structured_value_property_sets_checked": 9000},
            "thorough": {"module_property_sets_compared": 20000000, "wildcard_entries": 3000000, "typed_reads": 30000,
                         "structured_value_property_sets_checked": 150000},
        },
    },
    "C18": {
        "level": "exploration",
        "crash_is_violation": True,
        "rule": ("grammar-based generator of valid, realisable descriptions over a pool of 12 module names: acyclic submodule / inheritance structure, own and "
                 "inherited gates (atoms and clusters 1..3), submodule fields (atoms and clusters), generic modules with a bound whose fields are typed with the "
                 "binding and which are instantiated with the bound or an heir, connections local<->local, local<->child, child<->child (and endpoints two submodule levels down, child/grandchild/gate, pinned to single instances) as whole clusters (equal "
                 "instance counts, pairwise) or pinned single indices, optional links; every gate instance gets at most one connection per level. The document is "
                 "rendered to YAML and goes through serde_yml -> Def -> transform -> Ndl::build into a Sim with a recording registry; every second document takes one of the other public entry points instead (Ndl::from_str, Sim::nodes_from_ndl, Sim::with_ndl on a temporary file, Ndl::from_file), valid documents and mutants alike. Oracle = independent "
                 "reference elaborator: module set path -> software symbol (as seen by the registry), gate clusters per module, set of direct gate connections "
                 "with link latency / bitrate (read through both connection slots of every gate) must be equal, no more, no fewer. Then three single-point "
                 "mutations per document out of 25 operators (dangling type / inherit / entry / link, unknown gate / submodule, index out of bounds, index 0 into a non-cluster, zero-sized "
                 "gate or submodule cluster, unequal peers, inheritance and submodule cycles, malformed type clauses, generic without arguments, wrong arity, "
                 "non-conforming argument, an argument whose submodule is another instantiation of the same generic than the bound's (Box(Y) for Box(X), structurally different; with a conforming control), generic module or binding as argument, binding with arguments, deleted line, inserted garbage): never a panic; "
                 "structural mutants must be rejected with a non-empty message and a kind other than Other. FromStr / Display round trips of FieldDef, TypClause, "
                 "ConnectionEndpointDef. Non-trivial = valid document with >= 3 modules and a connection that checked clean; distinct = hash of the text."),
        "assumptions": ["the YAML parser itself is part of the pipeline: a crash inside it counts"],
        "stages": [
            native("ndl", "desmon", "c18", tiers=QT, timeout={"quick": 900, "thorough": 5400}),
            {"name": "asan", "crate": "desmon", "cmd": "c18", "mode": "asan", "tiers": T, "args": {"thorough": ["--budget", "2000"]},
             "timeout": {"thorough": 3600}, "counter_prefix": "asan_"},
        ],
        "floor": {
            "quick": {"valid_documents_built": 45000, "modules_compared": 600000, "connections_compared": 450000, "gate_clusters_compared": 900000,
                      "documents_with_type_arguments": 5000, "documents_with_inheritance": 10000, "documents_with_links": 5000,
                      "mutants_executed": 100000, "mutants_that_must_be_rejected": 60000, "mutants_MalformedClauseNoClose": 500,
                      "mutants_GenericModuleAsArg": 300, "mutants_BindingAsArg": 300, "mutants_BindingWithArgs": 300, "mutants_TextGarbage": 1000},
            "thorough": {"valid_documents_built": 300000, "mutants_executed": 800000, "mutants_that_must_be_rejected": 600000, "asan_valid_documents_built": 20000},
        },
    },
}


# ---------------------------------------------------------------------------------------------------------
# The case budgets of these drivers were multiplied after the first timing measurements (quick: about 10-40 s per
# property on 16 cores); the coverage floors above were written for the original budgets and scale with them.
# Floors of sanitizer / alternative-backend stages, of enumerated parts and of maxima are independent of the budget.
# ---------------------------------------------------------------------------------------------------------
SCALE = {
    "C04": (15, 8), "C05": (16, 12), "C06": (12, 8), "C08": (12, 8), "C09": (15, 10), "C11": (3, 3),
    "C14": (20, 12), "C16": (25, 12), "C17": (15, 10), "C18": (10, 8), "C07": (5, 4), "C19": (10, 7),
}
_UNSCALED = ("max_", "miri_", "asan_", "memcheck_", "heap_", "enumerated_", "body_types", "boundary_grid_cases")
for _pid, (_fq, _ft) in SCALE.items():
    for _tier, _factor in (("quick", _fq), ("thorough", _ft)):
        _floor = PROPERTIES[_pid].get("floor", {}).get(_tier, {})
        for _key in list(_floor):
            if not _key.startswith(_UNSCALED):
                _floor[_key] = int(_floor[_key] * _factor)
