#!/bin/bash
# Development aid (never used by a registered command): runs tools/seed_trials.py in a private mount namespace on copies
# of /repo and /verif (under /tmp, removed by hand afterwards), so that checks on the real, unchanged /repo can run at the
# same time. trial.json files are copied back.
set -e
mkdir -p /tmp/repo-trial /tmp/verif-trial
rsync -a --delete --exclude "target*" --exclude ".git/worktrees" /repo/ /tmp/repo-trial/ || true
git -C /tmp/repo-trial checkout -q -- . 2>/dev/null || true
rsync -a --exclude 'target*' --exclude 'replays' /verif/ /tmp/verif-trial/ || true
unshare -m bash -c 'mount --bind /tmp/repo-trial /repo && mount --bind /tmp/verif-trial /verif && cd /verif && tools/seed_trials.py "$@"' _ "$@"
for a in "$@"; do
  [ -f /tmp/verif-trial/seeded/$a/trial.json ] && cp /tmp/verif-trial/seeded/$a/trial.json /verif/seeded/$a/trial.json
done
true
