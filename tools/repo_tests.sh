#!/bin/bash
# Runs the repository's own test suite (guard OFF: no --cfg petrichorit_des_verif) and prints a summary.
# Exit 0 iff no test failed. Used as hooks.baseline_off_cmd and after every hook / fix commit.
cd /repo || exit 2
export CARGO_NET_OFFLINE=true
out=$(cargo nextest run --workspace --no-fail-fast --offline --test-threads 8 2>&1)
rc=$?
echo "$out" | grep -E 'Summary|FAIL|SIGABRT|error(\[|:)' | head -40
exit $rc
