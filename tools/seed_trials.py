#!/usr/bin/env python3
"""Development aid (never used by a registered command): tries the checks against the seeded changes.

  tools/seed_trials.py [--full] [--props C01,C15] <seed-id> [<seed-id> ...] | all

For every seeded change under /verif/seeded/<id>/ the patch is applied to /repo (which must be clean),
the quick check of the property it targets (meta.json "property", else the id prefix) is run - native
stages only unless --full -, /repo is restored, and the outcome is written to seeded/<id>/trial.json.
With --props the listed checks are run instead of the targeted one (cross detection).
Replays written during a trial are removed again; evidence files are restored by try_patch.sh.
"""
import json, os, re, subprocess, sys, time, glob

VERIF = os.path.dirname(os.path.dirname(os.path.abspath(__file__)))
SEEDED = os.path.join(VERIF, "seeded")


def trial(seed_id, prop, full, vseed="1"):
    patch = os.path.join(SEEDED, seed_id, "patch.diff")
    env = dict(os.environ)
    if not full:
        env["VERIF_ONLY_MODES"] = "native"
    before = set(glob.glob(os.path.join(VERIF, "replays", prop, "*")))
    t0 = time.time()
    p = subprocess.run([os.path.join(VERIF, "tools", "try_patch.sh"), patch, prop, "quick", vseed], env=env,
                       stdout=subprocess.PIPE, stderr=subprocess.STDOUT, text=True)
    out = p.stdout
    sigs = sorted(set(re.findall(r"^\s+signature: (.*)$", out, re.M)))
    viol = len(re.findall(r"^VIOLATION ", out, re.M))
    inconcl = re.findall(r"^INCONCLUSIVE .*$", out, re.M)
    m = re.search(r"check exit code: (\d+)", out)
    rc = int(m.group(1)) if m else p.returncode
    for f in set(glob.glob(os.path.join(VERIF, "replays", prop, "*"))) - before:
        os.remove(f)
    return {"check": f"{prop} quick" + ("" if full else " (native stages)"), "exit": rc, "caught": rc == 1 and viol > 0,
            "violation_lines": viol, "signatures": sigs, "inconclusive": inconcl[:3], "wall_s": round(time.time() - t0, 1),
            "verif_seed": vseed}


def main():
    args = sys.argv[1:]
    full = "--full" in args
    args = [a for a in args if a != "--full"]
    props = None
    if "--props" in args:
        i = args.index("--props")
        props = args[i + 1].split(",")
        del args[i:i + 2]
    ids = sorted(os.listdir(SEEDED)) if args == ["all"] else args
    for sid in ids:
        d = os.path.join(SEEDED, sid)
        meta = {}
        if os.path.exists(os.path.join(d, "meta.json")):
            meta = json.load(open(os.path.join(d, "meta.json")))
        own = meta.get("property") or sid.split("-")[0]
        tpath = os.path.join(d, "trial.json")
        trials = json.load(open(tpath)) if os.path.exists(tpath) else {}
        for prop in (props or [own]):
            r = trial(sid, prop, full)
            trials[r["check"]] = r
            print(f"{sid:12s} {r['check']:28s} caught={r['caught']} exit={r['exit']} {r['wall_s']}s {r['signatures'][:4]} {r['inconclusive'][:1]}", flush=True)
        json.dump(trials, open(tpath, "w"), indent=1)


if __name__ == "__main__":
    main()
