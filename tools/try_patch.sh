#!/bin/bash
# usage: tools/try_patch.sh <patch.diff> <property> [tier] [seed]
# Applies a seeded change to /repo, runs the check of the property, and always restores /repo,
# the monitor binaries and the evidence file (evidence must only ever come from the unchanged tree).
patch=$(readlink -f "$1"); prop=$2; tier=${3:-quick}; seed=${4:-1}
cd /repo || exit 2
if ! git diff --quiet; then echo "/repo has local changes, refusing"; exit 2; fi
ev=/verif/evidence/$prop.json
bak=$(mktemp)
[ -f "$ev" ] && cp "$ev" "$bak"
restore() {
  git -C /repo checkout -- .
  (cd /verif/monitor && cargo build -q -p cqmon -p desmon 2>/dev/null)
  [ -s "$bak" ] && cp "$bak" "$ev"
  rm -f "$bak"
}
trap restore EXIT
git apply "$patch" || { echo "patch does not apply"; exit 2; }
cd /verif && VERIF_SEED=$seed ./check "$prop" "$tier"
rc=$?
echo "check exit code: $rc"
exit $rc
