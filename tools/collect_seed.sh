#!/bin/bash
# development aid: collect a seeded change from a sub-agent's scratch worktree /tmp/wt-<tag> into /verif/seeded/<id>
# usage: collect_seed.sh <tag e.g. C07b> <seed id e.g. C07-b>
set -e
tag=$1; id=$2
src=/tmp/wt-$tag/demo
dst=/verif/seeded/$id
test -s $src/patch.diff || { echo "no patch for $tag"; exit 1; }
git -C /repo apply --check $src/patch.diff || { echo "patch of $tag does not apply to /repo"; exit 1; }
echo "files touched:"; grep '^+++ ' $src/patch.diff
if grep -q 'petrichorit_des_verif' $src/patch.diff; then echo "WARNING: patch mentions the verification cfg"; fi
mkdir -p $dst
cp $src/patch.diff $dst/patch.diff
cp $src/demo_$tag.rs $dst/ 2>/dev/null || cp $src/demo_*.rs $dst/
git -C /repo worktree remove --force /tmp/wt-$tag
echo "collected $id"
